#!/bin/sh
# Build the framework from files on disk only (offline). Run once after a fresh restore.
set -e
HERE="$(cd "$(dirname "$0")" && pwd)"
cd "$HERE/harness"
export CARGO_NET_OFFLINE=true
cargo build --offline --release -p vcore
cargo build --offline --release -p vserde
cargo build --offline --release -p vnet --features plain --bin vnet_plain
cargo build --offline --release -p vnet --features native --bin vnet_native
cargo build --offline --release -p vnet --features rtls --bin vnet_rtls
cargo build --offline --release -p vnet --features mixna --bin vnet_mixna
cargo build --offline --release -p vnet --features mixrn --bin vnet_mixrn
# the real ipputil binary, from /repo's working tree (C18)
(cd "${VERIF_REPO:-/repo}" && cargo build --offline --release -p ipp-util --target-dir "$HERE/harness/target/util")
# warm the Miri build of the core monitors (used by the C02 quick check and the thorough tiers)
cd "$HERE/harness"
MIRIFLAGS="-Zmiri-disable-isolation -Zmiri-ignore-leaks" cargo +nightly miri run --offline -p vcore -- san --focus c19 --budget 1 >/dev/null
