#!/bin/sh
# Build the framework from files on disk only (offline). Run once after a fresh restore.
set -e
cd /verif/harness
export CARGO_NET_OFFLINE=true
cargo build --offline --release -p vcore
cargo build --offline --release -p vserde
cargo build --offline --release -p vnet --features plain --bin vnet_plain
cargo build --offline --release -p vnet --features native --bin vnet_native
cargo build --offline --release -p vnet --features rtls --bin vnet_rtls
cd /verif/harness
(cd /repo && cargo build --offline --release -p ipp-util --target-dir /verif/harness/target/util)
# warm the Miri build of the core monitors (used by the C02 quick check and the thorough tiers)
MIRIFLAGS="-Zmiri-disable-isolation -Zmiri-ignore-leaks" cargo +nightly miri run --offline -p vcore -- san --focus c19 --budget 1 >/dev/null
