#!/bin/sh
# Build the framework from files on disk only (offline). Run once after a fresh restore.
set -e
cd /verif/harness
export CARGO_NET_OFFLINE=true
cargo build --offline --release -p vcore
cargo build --offline --release -p vserde
