#!/bin/sh
# run every check of the given tier (default quick); summary line per check
tier=${1:-quick}
cd "$(dirname "$0")"
rc_all=0
for i in 01 02 03 04 05 06 07 08 09 10 11 12 13 14 15 16 17 18 19 20; do
  out=$(./check C$i --tier $tier 2>&1)
  rc=$?
  echo "$out" | grep -E "^\[C$i\]" | tail -1
  echo "$out" | grep -E "^(VIOLATION|INCONCLUSIVE)" | head -5
  [ $rc -ne 0 ] && rc_all=1
done
exit $rc_all
