"""Per-property configuration of the driver: what to build, which monitor
steps to run (main monitor + sanitizer layers), how to replay."""
import json
import os

QUICK_TIMEOUT = 1500
THOROUGH_TIMEOUT = 4 * 3600


def _bin(ctx, name):
    return os.path.join(ctx["harness"], "target", "release", name)


def _timeout(ctx):
    return THOROUGH_TIMEOUT if ctx["tier"] == "thorough" else QUICK_TIMEOUT


def run_monitor(ctx, binary, sub, extra=None, tag="main", timeout=None, env=None):
    """run one monitor binary step; returns its result JSON"""
    out = os.path.join(ctx["work"], f"{ctx['pid']}.{ctx['tier']}.{tag}.json")
    if os.path.exists(out):
        os.remove(out)
    cmd = [binary, sub, "--tier", ctx["tier"], "--seed", str(ctx["seed"]), "--out", out] + (extra or [])
    e = ctx["env_base"]()
    e.update(env or {})
    rc, so, se, secs = ctx["run"](cmd, timeout=timeout or _timeout(ctx), env=e)
    tail = "\n".join(se.splitlines()[-15:])
    ctx["log"](tail)
    if rc is None:
        raise ctx["Inconclusive"](f"watchdog: {sub} ({tag}) exceeded {timeout or _timeout(ctx)}s wall clock")
    if rc != 0 or not os.path.exists(out):
        raise ctx["Inconclusive"](f"monitor process {sub} ({tag}) ended abnormally (rc={rc}) without a result: {tail[-600:]}")
    r = json.load(open(out))
    for v in r.get("violations", []):
        v["binary"] = os.path.basename(binary)
    r.setdefault("layers", [])
    return r


def vcore_build(ctx):
    ctx["cargo_build"]("vcore")


def vcore_check(sub, level="exploration", extra_steps=None):
    def steps(ctx):
        res = [run_monitor(ctx, _bin(ctx, "vcore"), sub)]
        for s in extra_steps or []:
            res.append(s(ctx))
        return res

    def replay(ctx, rp):
        cmd = [_bin(ctx, rp.get("binary") or "vcore")] + rp["argv"] + ["--tier", ctx["tier"], "--replay-mode"]
        rc, so, se, secs = ctx["run"](cmd, timeout=QUICK_TIMEOUT)
        try:
            r = json.loads(so)
            n = r.get("violations_total", 0)
            for v in r.get("violations", []):
                so += f"\nVIOLATION-REPLAYED {v['signature']}: {v['detail'][:2000]}\n"
            return (1 if n else 0), so, se, secs
        except Exception:
            return rc, so, se, secs

    return {"build": vcore_build, "steps": steps, "replay": replay, "level": level}


CHECKS = {
    "C01": vcore_check("c01"),
    "C03": vcore_check("c03"),
}
