"""Per-property configuration of the driver: what to build, which monitor
steps to run (main monitor + sanitizer layers), how to replay."""
import json
import os

QUICK_TIMEOUT = 1500
THOROUGH_TIMEOUT = 4 * 3600


def _bin(ctx, name):
    return os.path.join(ctx["harness"], "target", "release", name)


def _timeout(ctx):
    return THOROUGH_TIMEOUT if ctx["tier"] == "thorough" else QUICK_TIMEOUT


def run_monitor(ctx, binary, sub, extra=None, tag="main", timeout=None, env=None):
    """run one monitor binary step; returns its result JSON"""
    out = os.path.join(ctx["work"], f"{ctx['pid']}.{ctx['tier']}.{tag}.json")
    if os.path.exists(out):
        os.remove(out)
    cmd = [binary, sub, "--tier", ctx["tier"], "--seed", str(ctx["seed"]), "--out", out] + (extra or [])
    e = ctx["env_base"]()
    e.update(env or {})
    rc, so, se, secs = ctx["run"](cmd, timeout=timeout or _timeout(ctx), env=e)
    tail = "\n".join(se.splitlines()[-15:])
    ctx["log"](tail)
    if rc is None:
        raise ctx["Inconclusive"](f"watchdog: {sub} ({tag}) exceeded {timeout or _timeout(ctx)}s wall clock")
    if rc != 0 or not os.path.exists(out):
        raise ctx["Inconclusive"](f"monitor process {sub} ({tag}) ended abnormally (rc={rc}) without a result: {tail[-600:]}")
    r = json.load(open(out))
    for v in r.get("violations", []):
        v["binary"] = os.path.basename(binary)
    r.setdefault("layers", [])
    return r


def vcore_build(ctx):
    ctx["cargo_build"]("vcore")


def vcore_check(sub, level="exploration", extra_steps=None, extra_args=None):
    def steps(ctx):
        res = [run_monitor(ctx, _bin(ctx, "vcore"), sub, extra=extra_args)]
        for s in extra_steps or []:
            r = s(ctx)
            res += r if isinstance(r, list) else [r]
        return res

    def replay(ctx, rp):
        if rp["argv"] and rp["argv"][0] == "fuzz-artifact":
            binary = fuzz_build(ctx)
            e = ctx["env_base"]()
            e["VERIF_FOCUS"] = rp["argv"][1]
            rc, so, se, secs = ctx["run"]([binary, rp["argv"][2]], timeout=QUICK_TIMEOUT, env=e)
            return (1 if rc != 0 else 0), so, se, secs
        cmd = [_bin(ctx, rp.get("binary") or "vcore")] + rp["argv"] + ["--tier", ctx["tier"], "--replay-mode"]
        rc, so, se, secs = ctx["run"](cmd, timeout=QUICK_TIMEOUT)
        try:
            r = json.loads(so)
            n = r.get("violations_total", 0)
            for v in r.get("violations", []):
                so += f"\nVIOLATION-REPLAYED {v['signature']}: {v['detail'][:2000]}\n"
            return (1 if n else 0), so, se, secs
        except Exception:
            return rc, so, se, secs

    return {"build": vcore_build, "steps": steps, "replay": replay, "level": level}


# ---------------------------------------------------------------------- sanitizer layers (Miri, ASan)

MIRIFLAGS = "-Zmiri-disable-isolation -Zmiri-ignore-leaks"
ASAN_TARGET = "x86_64-unknown-linux-gnu"


def _layer_result(ctx, tool, runs, cases, reports, note=""):
    r = _empty_result(ctx)
    r["coverage"]["evaluations"] = cases
    r["layers"] = [{"tool": tool, "processes": runs, "cases": cases, "reports": len(reports), "note": note}]
    r["violations"] = reports
    r["violations_total"] = len(reports)
    return r


def _san_report(pid, tool, argv, se):
    import re
    # first sanitizer diagnostic line + first in-repo / in-harness frame
    first = ""
    for l in se.splitlines():
        if l.startswith("error:") or "ERROR: AddressSanitizer" in l or "WARNING: ThreadSanitizer" in l or "Undefined Behavior" in l:
            first = l.strip()
            break
    m = re.search(r"(/repo/[^\s:]+:\d+)", se)
    site = m.group(1) if m else ""
    kind = re.sub(r"[^A-Za-z0-9]+", "-", first)[:60].strip("-") or "report"
    return {"signature": f"{pid}:{tool}:{kind}:{site}", "detail": f"{tool} reported on `{' '.join(argv)}`: {first}\n" + "\n".join(se.splitlines()[-25:]),
            "replay": argv, "binary": f"{tool}:vcore"}


def miri_build(ctx):
    e = ctx["env_base"]()
    e["MIRIFLAGS"] = MIRIFLAGS
    cmd = ["cargo", "+nightly", "miri", "run", "--offline", "-p", "vcore", "--", "san", "--focus", "c19", "--budget", "1"]
    rc, so, se, secs = ctx["run"](cmd, timeout=3600, env=e)
    if rc != 0:
        raise ctx["Inconclusive"]("Miri build/warm-up failed:\n" + "\n".join(se.splitlines()[-15:]))
    ctx["log"](f"[build] miri vcore ok in {secs:.1f}s")


def miri_layer(ctx, jobs, pid=None, workers=16):
    """jobs: list of argv (after `vcore`); each runs in its own Miri process"""
    pid = pid or ctx["pid"]
    miri_build(ctx)
    # run the already built binary through cargo-miri's runner (no cargo lock contention between shards)
    import glob
    sysroot = None
    def one(job):
        i, argv = job
        out = os.path.join(ctx["work"], f"{pid}.{ctx['tier']}.miri.{i}.json")
        if os.path.exists(out):
            os.remove(out)
        e = ctx["env_base"]()
        e["MIRIFLAGS"] = MIRIFLAGS
        cmd = ["cargo", "+nightly", "miri", "run", "--offline", "-p", "vcore", "--"] + argv + ["--tier", ctx["tier"], "--seed", str(ctx["seed"]), "--out", out]
        rc, so, se, secs = ctx["run"](cmd, timeout=(3 * 3600 if ctx["tier"] == "thorough" else 1500), env=e)
        if rc is None:
            return ("timeout", argv, None, se)
        if rc == 0 and os.path.exists(out):
            return ("ok", argv, json.load(open(out)), se)
        if "Undefined Behavior" in se or "error: unsupported operation" in se or "data race" in se.lower() or "error: memory leaked" in se or "error: abnormal termination" in se or "error: deadlock" in se:
            return ("report", argv, None, se)
        return ("died", argv, None, se)
    outs = _pool(list(enumerate(jobs)), one, workers=workers)
    results = []
    reports = []
    cases = 0
    inconcl = []
    for status, argv, r, se in outs:
        if status == "ok":
            cases += r["coverage"]["evaluations"]
            for v in r["violations"]:
                v["binary"] = "miri:vcore"
            r["coverage"]["evaluations"] = 0  # counted in the layer entry, not as native evaluations
            r["coverage"]["distinct_nontrivial"] = 0
            r["coverage"]["samples"] = []
            results.append(r)
        elif status == "report":
            if "unsupported operation" in se:
                inconcl.append(f"Miri cannot execute `{' '.join(argv)}`: " + next((l for l in se.splitlines() if "unsupported operation" in l), ""))
            else:
                reports.append(_san_report(pid, "miri", argv, se))
        elif status == "timeout":
            inconcl.append(f"watchdog: Miri run `{' '.join(argv)}` exceeded its wall-clock limit")
        else:
            inconcl.append(f"Miri run `{' '.join(argv)}` ended abnormally: {se[-300:]}")
    lr = _layer_result(ctx, "miri (cargo +nightly miri run, " + MIRIFLAGS + ")", len(jobs), cases, reports,
                       "same per-case monitors as the native run, interpreted: undefined behaviour, data races, invalid memory accesses in any code reached (incl. dependencies)")
    lr["coverage"]["evaluations"] = 0
    lr["inconclusive"] = inconcl
    return results + [lr]


def asan_build(ctx):
    e = {"RUSTFLAGS": "-Zsanitizer=address -Cforce-frame-pointers=yes --cfg ancwrd1_ipp_rs_verif"}
    ctx["cargo_build"]("vcore", toolchain="nightly", target=ASAN_TARGET, extra_env=e,
                       extra_args=["--target-dir", os.path.join(ctx["harness"], "target", "asan")])
    return os.path.join(ctx["harness"], "target", "asan", ASAN_TARGET, "release", "vcore")


def asan_layer(ctx, jobs, pid=None, workers=16):
    pid = pid or ctx["pid"]
    binary = asan_build(ctx)
    def one(job):
        i, argv = job
        out = os.path.join(ctx["work"], f"{pid}.{ctx['tier']}.asan.{i}.json")
        if os.path.exists(out):
            os.remove(out)
        e = ctx["env_base"]()
        e["ASAN_OPTIONS"] = "halt_on_error=1:abort_on_error=0:detect_leaks=0:exitcode=66"
        cmd = [binary] + argv + ["--tier", ctx["tier"], "--seed", str(ctx["seed"]), "--out", out]
        rc, so, se, secs = ctx["run"](cmd, timeout=3 * 3600, env=e)
        if rc == 0 and os.path.exists(out):
            return ("ok", argv, json.load(open(out)), se)
        if "AddressSanitizer" in se:
            return ("report", argv, None, se)
        if rc is None:
            return ("timeout", argv, None, se)
        return ("died", argv, None, se)
    outs = _pool(list(enumerate(jobs)), one, workers=workers)
    results, reports, inconcl, cases = [], [], [], 0
    for status, argv, r, se in outs:
        if status == "ok":
            cases += r["coverage"]["evaluations"]
            for v in r["violations"]:
                v["binary"] = "asan:vcore"
            r["coverage"]["evaluations"] = 0
            r["coverage"]["distinct_nontrivial"] = 0
            r["coverage"]["samples"] = []
            results.append(r)
        elif status == "report":
            reports.append(_san_report(pid, "asan", argv, se))
        elif status == "timeout":
            inconcl.append(f"watchdog: ASan run `{' '.join(argv)}` exceeded 3 h")
        else:
            ab = _parse_abort(se)
            if ab and ab[3]:
                continue  # stack overflow on a known bomb shape is judged by the native layer, not here
            inconcl.append(f"ASan run `{' '.join(argv)}` ended abnormally: {se[-300:]}")
    lr = _layer_result(ctx, "AddressSanitizer (rustc -Zsanitizer=address, nightly, release)", len(jobs), cases, reports,
                       "same per-case monitors as the native run under ASan: heap/stack/global out-of-bounds, use-after-free, double free in any code reached")
    lr["coverage"]["evaluations"] = 0
    lr["inconclusive"] = inconcl
    return results + [lr]


# ---------------------------------------------------------------------- coverage-guided fuzzing layer (libFuzzer + ASan)

def fuzz_build(ctx):
    e = ctx["env_base"]()
    e["RUSTFLAGS"] = "--cfg ancwrd1_ipp_rs_verif"
    cwd = os.path.join(ctx["harness"], "vcore")
    rc, so, se, secs = ctx["run"](["cargo", "+nightly", "fuzz", "build"], timeout=3600, cwd=cwd, env=e)
    if rc != 0:
        raise ctx["Inconclusive"]("cargo fuzz build failed:\n" + "\n".join(se.splitlines()[-15:]))
    ctx["log"](f"[build] fuzz target ok in {secs:.1f}s")
    return os.path.join(cwd, "fuzz", "target", "x86_64-unknown-linux-gnu", "release", "mon")


def fuzz_layer(ctx, focus, seconds, instances=4):
    """libFuzzer (ASan-instrumented) mutates byte strings that drive the harness generators (or are the hostile input itself);
    the property's own per-case monitors judge every execution; a violation aborts the run and leaves the input as artifact"""
    import re
    import shutil
    binary = fuzz_build(ctx)
    pid = focus.upper()
    base = os.path.join(ctx["harness"], "vcore", "fuzz")
    seed_corpus = os.path.join(base, "seed_corpus", focus)  # committed, minimised
    corpus = os.path.join(ctx["work"], "fuzz_corpus", focus)
    os.makedirs(corpus, exist_ok=True)
    art = os.path.join(ctx["work"], "fuzz_artifacts", focus)
    shutil.rmtree(art, ignore_errors=True)
    os.makedirs(art, exist_ok=True)
    def one(i):
        e = ctx["env_base"]()
        e["VERIF_FOCUS"] = focus
        e["ASAN_OPTIONS"] = "detect_leaks=0:abort_on_error=1"
        cmd = [binary, corpus] + ([seed_corpus] if os.path.isdir(seed_corpus) else []) + [
            f"-max_total_time={seconds}", "-timeout=30", "-rss_limit_mb=6144", "-len_control=0", "-max_len=4096",
            f"-seed={ctx['seed'] * 1000 + i + 1}", f"-artifact_prefix={art}/i{i}-", "-print_final_stats=1"]
        return ctx["run"](cmd, timeout=seconds + 600, env=e)
    outs = _pool(list(range(instances)), one, workers=instances)
    reports, inconcl, execs, cov = [], [], 0, 0
    for i, (rc, so, se, secs) in enumerate(outs):
        m = re.search(r"stat::number_of_executed_units:\s*(\d+)", se)
        execs += int(m.group(1)) if m else 0
        for c in re.findall(r"cov: (\d+)", se)[-1:]:
            cov = max(cov, int(c))
        if rc == 0:
            continue
        v = re.search(r"VERIF-FUZZ-VIOLATION (\S+) :: (.*)", se)
        arts = sorted(os.listdir(art))
        mine = [a for a in arts if a.startswith(f"i{i}-")]
        artifact = os.path.join(art, mine[0]) if mine else ""
        if v:
            reports.append({"signature": v.group(1), "detail": f"[found by the coverage-guided layer; input artifact {artifact}] " + v.group(2)[:3000],
                            "replay": ["fuzz-artifact", focus, artifact], "binary": "fuzz:mon"})
        elif "ERROR: AddressSanitizer" in se:
            reports.append(_san_report(pid, "asan-fuzz", ["fuzz", focus, artifact], se))
        elif "ERROR: libFuzzer: timeout" in se:
            inconcl.append(f"libFuzzer: one execution exceeded 30 s (artifact {artifact})")
        elif "ERROR: libFuzzer: out-of-memory" in se:
            inconcl.append(f"libFuzzer: rss limit exceeded (artifact {artifact})")
        elif "deadly signal" in se or "panicked" in se:
            reports.append({"signature": f"{pid}:fuzz-crash", "detail": "the fuzz target crashed outside a monitor:\n" + "\n".join(se.splitlines()[-20:]),
                            "replay": ["fuzz-artifact", focus, artifact], "binary": "fuzz:mon"})
        else:
            inconcl.append(f"fuzz instance {i} ended abnormally (rc={rc}): {se[-300:]}")
    # keep witnesses where the driver's replay can find them
    for r in reports:
        a = r["replay"][2] if len(r["replay"]) > 2 else ""
        if a and os.path.exists(a):
            dst = os.path.join(ctx["verif"], "replays", pid)
            os.makedirs(dst, exist_ok=True)
            shutil.copy(a, os.path.join(dst, "fuzz-" + os.path.basename(a)))
            r["replay"][2] = os.path.join(dst, "fuzz-" + os.path.basename(a))
    lr = _layer_result(ctx, "libFuzzer + AddressSanitizer (cargo fuzz), byte-driven generators, property monitors as the crash oracle", instances, execs, reports,
                       f"{instances} instances x {seconds} s, {execs} executions, {cov} coverage edges reached, corpus {len(os.listdir(corpus))} inputs")
    lr["coverage"]["evaluations"] = 0
    lr["inconclusive"] = inconcl
    return lr


def san_jobs(focus, shards, budget):
    return [["san", "--focus", focus, "--shard", str(i), "--nshards", str(shards), "--budget", str(budget)] for i in range(shards)]


def with_sanitizers(focus):
    """thorough-tier extra steps: 16 Miri shards and an ASan run of the property's compact workload"""
    def step(ctx):
        if ctx["tier"] != "thorough":
            return _empty_result(ctx)
        res = miri_layer(ctx, san_jobs(focus, 16, 12))
        res += asan_layer(ctx, san_jobs(focus, 16, 4000))
        if focus in ("c01", "c03", "c04", "c05", "c06", "c19"):
            res.append(fuzz_layer(ctx, focus, int(os.environ.get("VERIF_FUZZ_SECONDS", "600")), instances=8))
        return res
    return step


# ---------------------------------------------------------------------- C02

C02_FAMILIES = ["tails", "grid", "withlang", "tokens", "mutations", "bytes12", "chains", "pairs", "strings", "preambles"]
C02_PHASES = ["parse", "display", "debug", "encode", "traverse", "clone-eq", "drop"]
BOMB_FAMILIES = ["nest", "nest-noname", "nest-multi", "set-width", "coll-set", "attr-count", "group-count", "member-count",
                 "value-len", "name-len", "unterminated", "endcoll-flood", "member-flood", "addl-no-attr"]
PHASE_NAMES = ["setup", "parse", "async-parse", "value-parse", "display", "debug", "encode", "traverse", "clone-eq", "drop"]


def _pool(jobs, fn, workers=16):
    from concurrent.futures import ThreadPoolExecutor
    with ThreadPoolExecutor(max_workers=workers) as ex:
        return list(ex.map(fn, jobs))


def _empty_result(ctx):
    return {"property_id": ctx["pid"], "tier": ctx["tier"], "seed": ctx["seed"],
            "coverage": {"evaluations": 0, "distinct_nontrivial": 0, "rule": "", "samples": [], "counters": {}, "observed_sets": {}},
            "wall_s": 0, "violations_total": 0, "violations": [], "inconclusive": [], "assumptions": [], "layers": []}


def _parse_abort(se):
    import re
    m = re.search(r"VERIF-ABORT sig=(\d+) case=(\d+) phase=(\d+)", se)
    if not m:
        return None
    return int(m.group(1)), int(m.group(2)), int(m.group(3)), ("stack overflow" in se or "overflowed its stack" in se)


def c02_worker(ctx, fam, shard, nshards, binary=None, tag=None):
    """one shard of one family in a child process; aborts are attributed and the shard resumed"""
    binary = binary or _bin(ctx, "vcore")
    skip = []
    extra_viol = []
    for attempt in range(6):
        out = os.path.join(ctx["work"], f"C02.{ctx['tier']}.{tag or 'w'}.{fam}.{shard}.json")
        if os.path.exists(out):
            os.remove(out)
        cmd = [binary, "c02w", "--family", fam, "--shard", str(shard), "--nshards", str(nshards),
               "--tier", ctx["tier"], "--seed", str(ctx["seed"]), "--out", out]
        if skip:
            cmd += ["--skip", ",".join(map(str, skip))]
        rc, so, se, secs = ctx["run"](cmd, timeout=_timeout(ctx))
        if rc is None:
            raise ctx["Inconclusive"](f"watchdog: C02 worker {fam}/{shard} exceeded the wall-clock limit")
        if rc == 0 and os.path.exists(out):
            r = json.load(open(out))
            for v in r["violations"]:
                v["binary"] = "vcore"
            r["violations"] += extra_viol
            r["violations_total"] += len(extra_viol)
            return r
        ab = _parse_abort(se)
        if ab is None:
            raise ctx["Inconclusive"](f"C02 worker {fam}/{shard} died (rc={rc}) without attribution: {se[-400:]}")
        sig, case, phase, so_flag = ab
        kind = "stack-overflow" if so_flag else f"abort-sig{sig}"
        extra_viol.append({
            "signature": f"C02:{kind}:{fam}:{PHASE_NAMES[phase]}",
            "detail": f"process aborted ({kind}) in phase {PHASE_NAMES[phase]} of case {case} of family {fam}: {se[-300:]}",
            "replay": ["c02w", "--family", fam, "--seed", str(ctx["seed"]), "--only", str(case)],
            "binary": "vcore"})
        skip.append(case)
    r = _empty_result(ctx)
    r["violations"] = extra_viol
    r["violations_total"] = len(extra_viol)
    r["inconclusive"].append(f"C02 worker {fam}/{shard}: more than 5 aborts, shard abandoned")
    return r


def c02_bomb(ctx, fam, size, phase, stack, use_async=False):
    out = os.path.join(ctx["work"], f"C02.{ctx['tier']}.bomb.{fam}.{size}.{phase}.{stack}.{int(use_async)}.json")
    if os.path.exists(out):
        os.remove(out)
    argv = ["c02bomb", "--family", fam, "--size", str(size), "--phase", phase, "--stack", str(stack)] + (["--async"] if use_async else [])
    cmd = [_bin(ctx, "vcore")] + argv + ["--tier", ctx["tier"], "--seed", str(ctx["seed"]), "--out", out]
    rc, so, se, secs = ctx["run"](cmd, timeout=900)
    key = f"{fam}/{phase}/{'async' if use_async else 'sync'}/stack{stack >> 20}M"
    if rc is None:
        r = _empty_result(ctx)
        r["inconclusive"].append(f"watchdog: bomb {key} size {size} exceeded 900 s wall clock")
        return r, key, size, "timeout"
    if rc == 0 and os.path.exists(out):
        r = json.load(open(out))
        for v in r["violations"]:
            v["binary"] = "vcore"
        return r, key, size, "violation" if r["violations"] else "ok"
    ab = _parse_abort(se)
    r = _empty_result(ctx)
    r["coverage"]["evaluations"] = 1
    if ab is None:
        r["inconclusive"].append(f"bomb {key} size {size} died (rc={rc}) without attribution: {se[-300:]}")
        return r, key, size, "died"
    sig, case, ph, so_flag = ab
    kind = "stack-overflow" if so_flag else f"abort-sig{sig}"
    r["violations"].append({
        "signature": f"C02:{kind}:bomb-{fam}:{PHASE_NAMES[ph]}:stack{stack >> 20}M:{size}",
        "detail": f"{kind} in phase {PHASE_NAMES[ph]} ({'async' if use_async else 'blocking'} parser, {stack >> 20} MiB stack) on the {fam} bomb of {size} input bytes",
        "replay": argv, "binary": "vcore"})
    r["violations_total"] = 1
    return r, key, size, kind


def c02_steps(ctx):
    thorough = ctx["tier"] == "thorough"
    jobs = []
    for fam in C02_FAMILIES:
        n = 16 if (thorough or fam in ("tails", "grid", "mutations", "bytes12", "chains")) else 4
        jobs += [(fam, i, n) for i in range(n)]
    # sanitizer layer, started first and joined at the end: quick = one Miri shard over grid / with-language / tokens,
    # thorough = 16 Miri shards (+ mutations) and an ASan build over all families
    import threading
    layer_out = []
    def layers():
        try:
            if thorough:
                mj = []
                for i in range(16):
                    fam = ["grid", "withlang", "tokens", "mutations"][i % 4]
                    n = {"grid": 461, "withlang": 25, "tokens": 2381, "mutations": 4001}[fam]
                    mj.append(["c02w", "--family", fam, "--shard", str(i), "--nshards", str(n), "--lean"])
                layer_out.extend(miri_layer(ctx, mj, pid="C02"))
                aj = []
                for fam in C02_FAMILIES:
                    aj += [["c02w", "--family", fam, "--shard", str(i), "--nshards", "16"] for i in range(16)]
                layer_out.extend(asan_layer(ctx, aj, pid="C02"))
                layer_out.append(fuzz_layer(ctx, "c02", int(os.environ.get("VERIF_FUZZ_SECONDS", "600")), instances=8))
            else:
                seed = ctx["seed"]
                # odd shard counts so that consecutive picks alternate between the framed / truncated halves of the grid
                mj = [["c02w", "--family", "grid", "--shard", str(seed % 1381), "--nshards", "1381", "--lean"],
                      ["c02w", "--family", "withlang", "--shard", str(seed % 73), "--nshards", "73", "--lean"],
                      ["c02w", "--family", "tokens", "--shard", str(seed % 1747), "--nshards", "1747", "--lean"]]
                layer_out.extend(miri_layer(ctx, mj, pid="C02", workers=3))
        except Exception as e:  # Inconclusive from the build etc.
            layer_out.append(e)
    lt = threading.Thread(target=layers)
    lt.start()
    results = _pool(jobs, lambda j: c02_worker(ctx, *j))
    # structural bombs: each (family, size, phase) in its own process
    sizes = [4096 << i for i in range(9)] if thorough else [16384, 262144, 1048576]
    bjobs = []
    for fam in BOMB_FAMILIES:
        for size in sizes:
            for ph in C02_PHASES:
                if fam == "member-count" and ph == "traverse" and size > 262144:
                    continue  # the by-index collection iterator is quadratic; covered at <= 256 KiB
                bjobs.append((fam, size, ph, 8 << 20, False))
            bjobs.append((fam, size, "parse", 8 << 20, True))
            if thorough:
                bjobs.append((fam, size, "parse", 2 << 20, False))
                bjobs.append((fam, size, "drop", 2 << 20, False))
    bres = _pool(bjobs, lambda j: c02_bomb(ctx, *j))
    boundary = {}
    for r, key, size, outcome in bres:
        results.append(r)
        b = boundary.setdefault(key, {"max_ok": 0, "min_fail": None})
        if outcome == "ok":
            b["max_ok"] = max(b["max_ok"], size)
        elif outcome not in ("timeout", "died"):
            b["min_fail"] = size if b["min_fail"] is None else min(b["min_fail"], size)
    lt.join()
    for x in layer_out:
        if isinstance(x, Exception):
            raise x
        results.append(x)
    head = results[0]
    head["coverage"]["rule"] = (
        "Hostile corpus, every input through the blocking parser (scripted source counting reads after EOF), the async parser (manual executor: "
        "deadlock / busy-loop on logical steps) and, for ok results, Display/Debug/to_bytes/iteration/clone+eq/drop under catch_unwind, in child "
        "processes whose abort handler attributes a signal to (case, phase). Families: (a) every tail of <=2 bytes after a valid header, 3-byte "
        "tails (quick: 256x256x16 third bytes, thorough: all 2^24); (b) tag 0x00-0xff x value length {0..16,0xffff} x 6 fills x {framed,truncated}, "
        "also straight into IppValue::parse; (c) with-language outer length 0..12 x inner length pairs; (d) all token sequences <=4 (quick) / <=5 "
        "(thorough) over the 16-token alphabet; (e) grammar-aware mutations of G1/G2 messages; (e2) every tag x every 1-byte body and four 2-byte body shapes (also into IppValue::parse); (f) structural bombs (14 families, sizes up to "
        "1 MiB), one (family,size,phase) per process. evaluations = inputs run; distinct_nontrivial = distinct inputs (hash) that parsed to a result "
        "and went through the inspection phases.")
    head["coverage"]["bomb_boundaries"] = boundary
    head["coverage"]["bomb_runs"] = len(bjobs)
    head["assumptions"] = ["8 MiB stack for the case thread (main-thread default); stack overflow is judged per phase in a separate process",
                           "hang = >1000 reads after EOF (blocking) or Pending without wake-up / 10000 polls without progress (async); wall clock is only a watchdog"]
    return results


def c02_replay(ctx, rp):
    cmd = [_bin(ctx, "vcore")] + rp["argv"] + ["--tier", ctx["tier"]]
    rc, so, se, secs = ctx["run"](cmd, timeout=QUICK_TIMEOUT)
    bad = rc != 0 or '"violations_total":0' not in so.replace(" ", "")
    return (1 if bad else 0), so, se, secs


# ---------------------------------------------------------------------- C15 instruction counts

C15_FAMILIES = ["nest", "nest-noname", "nest-multi", "set-width", "coll-set", "attr-count", "group-count", "member-count",
                "value-len", "name-len", "unterminated", "endcoll-flood", "member-flood", "addl-no-attr",
                "name-invalid-utf8", "value-invalid-utf8", "member-count-desc", "member-count-shuffled", "attr-count-desc", "wide-then-many",
                "set-width-mixed", "member-width-mixed", "set-width-strings", "attr-same-name", "attr-few-names", "set-width-novalue", "member-same-name",
                "value-len-text", "value-len-keyword", "value-len-withlang", "groups-late-op",
                "attr-count-caps", "attr-count-charset", "member-count-caps"]
C15_RATIO_LIMIT = 2.6


def c15_growth(series, floor):
    """Growth of the last doubling: 2 x (marginal cost per input byte of the last step) / (the steepest marginal cost of any
    earlier step whose increment exceeds `floor`). For a cost whose marginal cost never falls this is the plain ratio of successive
    increments (linear 2, quadratic 4); a step that got *cheaper* (another buffering regime for larger values) does not make the
    next, ordinary one look super-linear."""
    m = []
    for i in range(1, len(series)):
        dn = series[i][0] - series[i - 1][0]
        dc = series[i][1] - series[i - 1][1]
        m.append((dc / dn if dn > 0 else 0.0, dc))
    prev = [x for x, dc in m[:-1] if dc > floor]
    if not prev or max(prev) <= 0 or series[-1][0] - series[-2][0] < 0.25 * series[-2][0]:
        return None  # nothing to compare with, or the family's generator did not actually grow the input
    return 2.0 * m[-1][0] / max(prev)


def c15_irefs(ctx, fam, size, use_async, chunk=0):
    import re
    cmd = ["valgrind", "--tool=cachegrind", "--cache-sim=no", "--cachegrind-out-file=/dev/null",
           _bin(ctx, "vcore"), "cost", "--family", fam, "--size", str(size)] + (["--async"] if use_async else []) + (["--chunk", str(chunk)] if chunk else [])
    if fam == "hash-flood":
        cmd += ["--names-file", os.path.join(ctx["work"], "C15.flood.names")]
    rc, so, se, secs = ctx["run"](cmd, timeout=1800)
    m = re.search(r"I\s+refs:\s+([\d,]+)", se)
    n = re.search(r"input_bytes=(\d+)", so)
    if rc is None:
        return None, None, "timeout"
    if "NOT-APPLICABLE" in so:
        return None, None, "n/a"
    if rc != 0 or not m or not n:
        return None, None, f"rc={rc}: {se[-200:]}"
    return int(m.group(1).replace(",", "")), int(n.group(1)), None


def c15_series(ctx, job):
    fam, use_async, max_size = job[:3]
    chunk = job[3] if len(job) > 3 else 0
    key = f"{fam}/{'async' if use_async else 'blocking'}" + (f"/reads-of-{chunk}" if chunk else "")
    series, viol, inconcl = [], [], []
    size = 4096
    suspect = False  # one doubling above the limit: confirmed or cleared by the next one (taken even beyond max_size)
    while size <= max_size or (suspect and size <= 2 * max_size):
        irefs, n, err = c15_irefs(ctx, fam, size, use_async, chunk)
        if err == "timeout":
            # >100x backstop: a linear parse of <= 1 MiB under cachegrind takes seconds, not half an hour
            inconcl.append(f"watchdog: cachegrind run {key} size {size} exceeded 1800 s")
            break
        if err == "n/a":
            break  # hasher keyed per process: prepared names do not collide there
        if err:
            inconcl.append(f"cachegrind run {key} size {size} failed: {err}")
            break
        series.append((n, irefs))
        if len(series) >= 3:
            ratio = c15_growth(series, 200_000)
            was_suspect, suspect = suspect, False
            if ratio is not None:
                if ratio > C15_RATIO_LIMIT and not was_suspect:
                    suspect = True
                elif ratio > C15_RATIO_LIMIT:
                    viol.append({
                        "signature": f"C15:superlinear-instructions:{fam}",
                        "detail": f"{key}: instructions grow by x{ratio:.2f} per doubling (against the steepest earlier doubling, second doubling in a row above the limit) at {n} input bytes (series (input bytes, I refs): {series}); linear is 2, quadratic 4, limit {C15_RATIO_LIMIT}",
                        "replay": ["cost", "--family", fam, "--size", str(size)] + (["--async"] if use_async else []) + (["--chunk", str(chunk)] if chunk else []),
                        "binary": "vcore"})
                    break  # stop the series at the first violating doubling
        size *= 2
    return key, series, viol, inconcl


def c15_cachegrind(ctx):
    max_size = (1 << 20) if ctx["tier"] == "thorough" else (64 << 10)
    jobs = [(f, a, max_size) for f in C15_FAMILIES for a in (False, True)]
    jobs += [(f, a, max_size, 13) for f in ("value-len", "name-len", "attr-count", "nest") for a in (False, True)]
    # hash-flood: only applicable when the attribute maps' hasher is deterministic across instances (it is randomly keyed on the
    # pinned tree); the colliding names are searched natively under the library's own hasher, the parse is measured under cachegrind
    names = os.path.join(ctx["work"], "C15.flood.names")
    rc, so, se, secs = ctx["run"]([_bin(ctx, "vcore"), "floodgen", "--count", str(max(2000, (max_size * 4) // 12)), "--out", names], timeout=1800)
    flood_note = so.strip().splitlines()[-1] if so.strip() else f"floodgen failed rc={rc}"
    if rc == 0 and os.path.exists(names) and not open(names).read().startswith("KEYED"):
        jobs.append(("hash-flood", False, max_size * 4))
    out = _pool(jobs, lambda j: c15_series(ctx, j))
    r = _empty_result(ctx)
    allseries = {}
    worst = 0.0
    for key, series, viol, inconcl in out:
        allseries[key] = series
        r["coverage"]["evaluations"] += len(series)
        r["coverage"]["distinct_nontrivial"] += len(series)
        r["violations"] += viol
        r["violations_total"] += len(viol)
        r["inconclusive"] += inconcl
        for i in range(3, len(series) + 1):
            g = c15_growth(series[:i], 200_000)
            if g is not None:
                worst = max(worst, g)
    r["coverage"]["instruction_series"] = allseries
    r["coverage"]["hash_flood_family"] = flood_note
    r["coverage"]["counters"]["max_instruction_ratio_x1000"] = int(worst * 1000)
    r["layers"] = [{"tool": "valgrind cachegrind (--cache-sim=no), instruction counts of a process that only parses",
                    "runs": sum(len(s) for s in allseries.values()), "worst_incremental_ratio": round(worst, 3), "reports": len(r["violations"])}]
    return r


def c15_replay(ctx, rp):
    if rp["argv"] and rp["argv"][0] == "cost":
        fam = rp["argv"][rp["argv"].index("--family") + 1]
        size = int(rp["argv"][rp["argv"].index("--size") + 1])
        chunk = int(rp["argv"][rp["argv"].index("--chunk") + 1]) if "--chunk" in rp["argv"] else 0
        key, series, viol, inconcl = c15_series(ctx, (fam, "--async" in rp["argv"], size, chunk))
        out = f"series {key}: {series}\n" + "".join(f"VIOLATION-REPLAYED {v['signature']}: {v['detail']}\n" for v in viol)
        return (1 if viol else 0), out, "", 0
    return vcore_check("c15")["replay"](ctx, rp)


def vserde_build(ctx):
    ctx["cargo_build"]("vserde")


def vserde_steps(ctx):
    out = os.path.join(ctx["work"], f"C20.{ctx['tier']}.json")
    if os.path.exists(out):
        os.remove(out)
    cmd = [_bin(ctx, "vserde"), "--tier", ctx["tier"], "--seed", str(ctx["seed"]), "--out", out]
    rc, so, se, secs = ctx["run"](cmd, timeout=_timeout(ctx))
    ctx["log"]("\n".join(se.splitlines()[-5:]))
    if rc is None:
        raise ctx["Inconclusive"]("watchdog: vserde exceeded the wall-clock limit")
    if rc != 0 or not os.path.exists(out):
        raise ctx["Inconclusive"](f"vserde ended abnormally (rc={rc}): {se[-400:]}")
    r = json.load(open(out))
    for v in r["violations"]:
        v["binary"] = "vserde"
        v["replay"] = v["replay"][1:]
    r.setdefault("layers", [])
    return [r]


def vserde_replay(ctx, rp):
    cmd = [_bin(ctx, "vserde")] + rp["argv"] + ["--tier", ctx["tier"]]
    rc, so, se, secs = ctx["run"](cmd, timeout=QUICK_TIMEOUT)
    bad = rc != 0 or '"violations_total":0' not in so.replace(" ", "")
    return (1 if bad else 0), so, se, secs


# ---------------------------------------------------------------------- network checks (vnet)

def vnet_build(ctx, variants):
    for v in variants:
        ctx["cargo_build"]("vnet", bins=[f"vnet_{v}"], features=[v])


def vnet_run(ctx, variant, sub, extra=None, tag=None):
    r = run_monitor(ctx, _bin(ctx, f"vnet_{variant}"), sub, extra=extra, tag=tag or f"{sub}.{variant}")
    for v in r.get("violations", []):
        v["binary"] = f"vnet_{variant}"
    return r


def vnet_replay(ctx, rp):
    cmd = [_bin(ctx, rp.get("binary") or "vnet_plain")] + rp["argv"] + ["--tier", ctx["tier"]]
    if rp["argv"] and rp["argv"][0] == "c12":
        cmd += ["--certs", ensure_certs(ctx)]
    if rp["argv"] and rp["argv"][0] == "c18":
        work = os.path.join(ctx["work"], "c18")
        os.makedirs(work, exist_ok=True)
        cmd += ["--ipputil", os.path.join(ctx["harness"], "target", "util", "release", "ipputil"), "--work", work]
    rc, so, se, secs = ctx["run"](cmd, timeout=QUICK_TIMEOUT)
    bad = rc != 0 or '"violations_total":0' not in so.replace(" ", "")
    return (1 if bad else 0), so, se, secs


def c14_build(ctx):
    vcore_build(ctx)
    vnet_build(ctx, ["plain"])


def c14_steps(ctx):
    res = [run_monitor(ctx, _bin(ctx, "vcore"), "c14")]
    wire = vnet_run(ctx, "plain", "c14")
    res[0]["coverage"]["rule"] = res[0]["coverage"].get("rule", "") + " || " + wire["coverage"].get("rule", "")
    res.append(wire)
    return res


def c14_replay(ctx, rp):
    if (rp.get("binary") or "").startswith("vnet"):
        return vnet_replay(ctx, rp)
    return vcore_check("c14")["replay"](ctx, rp)


def tsan_layer(ctx):
    """C11 thorough: the concurrent-senders workload under ThreadSanitizer (std rebuilt with -Zbuild-std so every lock is instrumented).
    A report counts when one of the two racing accesses is in ipp's own code; races between tokio's reactor and its registrations are
    synchronised through epoll, which TSan cannot see, and are logged as 'outside ipp'."""
    import re
    tdir = os.path.join(ctx["harness"], "target", "tsan")
    ctx["cargo_build"]("vnet", bins=["vnet_plain"], features=["plain"], toolchain="nightly", target=ASAN_TARGET,
                       extra_env={"RUSTFLAGS": "-Zsanitizer=thread --cfg ancwrd1_ipp_rs_verif"}, extra_args=["-Zbuild-std", "--target-dir", tdir])
    binary = os.path.join(tdir, ASAN_TARGET, "release", "vnet_plain")
    reports, outside, sends, inconcl = [], 0, 0, []
    for rep_i in range(3):
        out = os.path.join(ctx["work"], f"C11.tsan.{rep_i}.json")
        e = ctx["env_base"]()
        e["TSAN_OPTIONS"] = "halt_on_error=0:exitcode=0:second_deadlock_stack=1"
        rc, so, se, secs = ctx["run"]([binary, "c11", "--only", "concurrent", "--seed", str(ctx["seed"] + rep_i), "--tier", "quick", "--out", out], timeout=3600, env=e)
        if rc != 0 or not os.path.exists(out):
            inconcl.append(f"TSan run {rep_i} ended abnormally (rc={rc}): {se[-300:]}")
            continue
        r = json.load(open(out))
        sends += r["coverage"]["evaluations"]
        for v in r["violations"]:
            v["binary"] = "tsan:vnet_plain"
            reports.append(v)
        for block in se.split("=================="):
            if "WARNING: ThreadSanitizer" not in block:
                continue
            stacks = [st for st in block.split("\n\n") if re.search(r"^\s+#0 ", st, re.M)][:2]
            in_ipp = False
            tops = []
            for st in stacks:
                for l in st.splitlines():
                    m = re.match(r"\s+#\d+ (.*?) (/\S+?):(\d+)", l)
                    if not m:
                        continue
                    path = m.group(2)
                    if "/rustlib/src/rust/library/" in path or "compiler-rt" in path or "/rustc/" in path:
                        continue
                    tops.append(f"{path}:{m.group(3)}")
                    if path.startswith(ctx["repo"] + "/ipp/") or "/ipp/src/" in path and "registry" not in path:
                        in_ipp = True
                    break
            if in_ipp:
                kind = re.search(r"ThreadSanitizer: ([^\n(]+)", block).group(1).strip().replace(" ", "-")
                reports.append({"signature": f"C11:tsan:{kind}:{'|'.join(sorted(set(tops)))}", "detail": "ThreadSanitizer report with a racing access in ipp code:\n" + block[:3000],
                                "replay": ["c11", "--only", "concurrent"], "binary": "tsan:vnet_plain"})
            else:
                outside += 1
    lr = _layer_result(ctx, "ThreadSanitizer (rustc -Zsanitizer=thread -Zbuild-std, nightly)", 3, sends, reports,
                       f"concurrent senders through one client, 3 repetitions; {outside} report(s) whose racing accesses are both outside ipp (tokio reactor vs registration, synchronised through epoll which TSan does not model) were logged and not counted")
    lr["coverage"]["evaluations"] = 0
    lr["inconclusive"] = inconcl
    return lr


def c11_build(ctx):
    vnet_build(ctx, ["plain"] + (["native", "rtls"] if ctx["tier"] == "thorough" else []))


def c11_steps(ctx):
    res = [vnet_run(ctx, "plain", "c11")]
    if ctx["tier"] == "thorough":
        # the TLS-enabled builds take the same plain-HTTP workload through their cfg variants of send()
        qctx = dict(ctx, tier="quick")
        for v in ("native", "rtls"):
            res.append(vnet_run(qctx, v, "c11", tag=f"c11.{v}.thorough-extra"))
        res.append(tsan_layer(ctx))
    return res


def ensure_certs(ctx):
    import importlib.util
    d = os.path.join(ctx["work"], "certs")
    spec = importlib.util.spec_from_file_location("certs", os.path.join(ctx["verif"], "lib", "certs.py"))
    mod = importlib.util.module_from_spec(spec)
    spec.loader.exec_module(mod)
    try:
        mod.make(d)
    except Exception as e:
        raise ctx["Inconclusive"](f"certificate generation with the openssl CLI failed: {e}")
    return d


def c12_build(ctx):
    vnet_build(ctx, ["native", "rtls", "mixna", "mixrn"])


def c12_steps(ctx):
    d = ensure_certs(ctx)
    res = [vnet_run(ctx, v, "c12", extra=["--certs", d]) for v in ("native", "rtls")]
    # mixed feature sets (each client on a different backend): sub-matrix in quick, full matrix in thorough
    mixed_extra = ["--certs", d] + ([] if ctx["tier"] == "thorough" else ["--reduced"])
    res += [vnet_run(ctx, v, "c12", extra=mixed_extra) for v in ("mixna", "mixrn")]
    res[0]["coverage"]["rule"] = res[0]["coverage"]["rule"].replace("for the native-tls build", "per TLS backend build")
    res[0]["coverage"]["tls_builds_run"] = ["native-tls (both clients)", "rustls (both clients)", "blocking native-tls + async rustls", "blocking rustls + async native-tls"]
    return res


def c18_build(ctx):
    vnet_build(ctx, ["plain"])
    # the real binary, from /repo's working tree
    cmd = ["cargo", "build", "--offline", "--release", "-p", "ipp-util", "--target-dir", os.path.join(ctx["harness"], "target", "util")]
    e = ctx["env_base"]()
    rc, so, se, secs = ctx["run"](cmd, timeout=3600, cwd=ctx["repo"], env=e)
    if rc != 0:
        raise ctx["Inconclusive"]("building ipputil from /repo/util failed:\n" + "\n".join(se.splitlines()[-20:]))
    ctx["log"](f"[build] ipputil ok in {secs:.1f}s")


def c18_steps(ctx):
    util = os.path.join(ctx["harness"], "target", "util", "release", "ipputil")
    work = os.path.join(ctx["work"], "c18")
    os.makedirs(work, exist_ok=True)
    return [vnet_run(ctx, "plain", "c18", extra=["--ipputil", util, "--work", work])]


CHECKS = {
    "C11": {"build": c11_build, "steps": c11_steps, "replay": vnet_replay, "level": "exploration"},
    "C12": {"build": c12_build, "steps": c12_steps, "replay": vnet_replay, "level": "exploration"},
    "C18": {"build": c18_build, "steps": c18_steps, "replay": vnet_replay, "level": "exploration"},
    "C20": {"build": vserde_build, "steps": vserde_steps, "replay": vserde_replay, "level": "exploration"},
    "C02": {"build": vcore_build, "steps": c02_steps, "replay": c02_replay, "level": "exploration"},
    "C01": vcore_check("c01", extra_steps=[with_sanitizers("c01")]),
    "C03": vcore_check("c03", extra_steps=[with_sanitizers("c03")]),
    "C04": vcore_check("c04", extra_steps=[with_sanitizers("c04")]),
    "C05": vcore_check("c05", extra_steps=[with_sanitizers("c05")]),
    "C06": vcore_check("c06", extra_steps=[with_sanitizers("c06")]),
    "C07": vcore_check("c07", level="fault_enumeration", extra_steps=[lambda ctx: fuzz_layer(ctx, "c07", int(os.environ.get("VERIF_FUZZ_SECONDS", "600")), instances=8) if ctx["tier"] == "thorough" else _empty_result(ctx)]),
    "C08": vcore_check("c08", extra_steps=[with_sanitizers("c08")]),
    "C09": vcore_check("c09"),
    "C10": vcore_check("c10"),
    "C13": vcore_check("c13"),
    "C14": {"build": c14_build, "steps": c14_steps, "replay": c14_replay, "level": "exploration"},
    "C15": dict(vcore_check("c15", extra_steps=[c15_cachegrind], extra_args=["--logged"]), replay=c15_replay),
    "C16": vcore_check("c16"),
    "C17": vcore_check("c17"),
    "C19": vcore_check("c19", extra_steps=[with_sanitizers("c19")]),
}
