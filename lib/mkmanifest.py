#!/usr/bin/env python3
"""Regenerates /verif/MANIFEST.json from the table below (single source of truth for the interface)."""
import json, os, subprocess

ALL = [f"C{i:02d}" for i in range(1, 21)]

def hooks_commits():
    try:
        out = subprocess.check_output(["git", "-C", "/repo", "log", "--format=%h %s"], text=True)
        return [l.split()[0] for l in out.splitlines() if l.split(" ", 1)[1].startswith("verif hook")]
    except Exception:
        return []

CHECKS = {
 "C01": dict(
    level="exploration", design="2/C01",
    technique="runtime monitor: differential round-trip oracle (generator mirror tree vs parsed result via public API) over seeded + hand-enumerated value-model messages; Miri/ASan layers in thorough",
    text="Seeded exploration of the public value model: every generated message is encoded by the library and parsed back by the blocking parser (from to_bytes and from into_read) and, every 4th case, by the async parser; the result is compared structurally with the generator's own mirror tree and the payload byte-for-byte. A deterministic prefix enumerates each of the 22 kinds, every ordered pair of kinds as a 2-set, multi-valued members, sets of collections, nested collections, repeated/empty groups and every boundary length. Held = no difference on the executions listed in the evidence; nothing is claimed about messages not generated.",
    note="Trusted: the harness's own mirror conversion (public API only) and generator. Domain as in the property's quantifier (utc_dir one octet; Other.tag among tags without a kind of their own)."),
 "C03": dict(
    level="exploration", design="2/C03",
    technique="runtime monitor: independent RFC 8010 reference decoder/encoder (no code shared with ipp) judging the library's bytes over many fresh map instances",
    text="The bytes of to_bytes() for each generated message (T fresh instances per message, so the randomly keyed maps take different iteration orders) are decoded by an independent strict RFC 8010 decoder (exact lengths, registered body widths, separators with empty name and own tag, collection bracketing, unique names, exactly one end tag, operation group first), the decoded content is compared with the mirror of what was encoded, and a reference encoder given the observed attribute order must reproduce the bytes exactly. The evidence counts distinct attribute orders actually observed; a run in which the orders did not vary is inconclusive.",
    note="Trusted: the reference codec (ippref), written from RFC 8010 and anchored at start-up to hand-transcribed RFC example messages."),
}

REASON_TODO = "check not built yet in this revision of /verif (planned; see DESIGN.md section 2)"

def main():
    checks = []
    for pid in ALL:
        if pid not in CHECKS:
            continue
        c = CHECKS[pid]
        checks.append({
            "property_id": pid,
            "quick_cmd": f"./check {pid} --tier quick",
            "thorough_cmd": f"./check {pid} --tier thorough",
            "evidence_file": f"/verif/evidence/{pid}.json",
            "replay_cmd_template": f"./check {pid} --replay {{path}}",
            "engine": "runtime-monitors",
            "level_claimed": {"category": c["level"], "text": c["text"], "design_ref": "DESIGN.md section " + c["design"]},
            "level_note": c["note"],
            "technique": c["technique"],
        })
    m = {
        "version": 1,
        "setup_cmd": "cd /verif && ./setup.sh",
        "hooks": {
            "guard": "--cfg ancwrd1_ipp_rs_verif",
            "enable": "harness/.cargo/config.toml sets rustflags = [\"--cfg\", \"ancwrd1_ipp_rs_verif\"]; the harness crates path-depend on /repo/ipp so every check rebuilds the working tree with the hook on",
            "baseline_off_cmd": "cd /repo && cargo test --workspace --no-fail-fast --offline",
            "source_commits": hooks_commits(),
            "add_only": True,
        },
        "engines": [{
            "name": "runtime-monitors",
            "path": "/verif/harness",
            "serves_properties": [p for p in ALL if p in CHECKS],
            "kind_free_text": "cargo workspace of monitor binaries (reference codec ippref, generators/scripted sources/executor/counting allocator vkit, monitors vcore/vserde/vnet) driven by /verif/check; sanitizer layers: Miri, ASan, TSan, cachegrind",
        }],
        "checks": checks,
        "not_applicable": [{"property_id": p, "reason": REASON_TODO} for p in ALL if p not in CHECKS],
        "notes": "Technique family: runtime monitoring and sanitizers. Exit codes: 0 held (or only listed known findings), 1 violation with replay file, 2 inconclusive (never a VIOLATION line). Known findings: /verif/known_findings.txt.",
    }
    with open("/verif/MANIFEST.json", "w") as f:
        json.dump(m, f, indent=1)
        f.write("\n")

if __name__ == "__main__":
    main()
