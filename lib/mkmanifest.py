#!/usr/bin/env python3
"""Regenerates /verif/MANIFEST.json from the table below (single source of truth for the interface)."""
import json, os, subprocess

ALL = [f"C{i:02d}" for i in range(1, 21)]

def hooks_commits():
    try:
        out = subprocess.check_output(["git", "-C", "/repo", "log", "--format=%h %s"], text=True)
        return [l.split()[0] for l in out.splitlines() if l.split(" ", 1)[1].startswith("verif hook")]
    except Exception:
        return []

CHECKS = {
 "C01": dict(
    level="exploration", design="2/C01",
    technique="runtime monitor: differential round-trip oracle (generator mirror tree vs parsed result via public API) over seeded + hand-enumerated value-model messages; Miri/ASan layers in thorough",
    text="Seeded exploration of the public value model: every generated message is encoded by the library and parsed back by the blocking parser (from to_bytes and from into_read) and, every 4th case, by the async parser; every other message that additions alone can produce is additionally built through IppAttributes::add only (shuffled, some attributes first added with a decoy value and replaced later) or through add() followed by attributes_mut().insert(); messages are also re-encoded after header_mut() / add(), and as modified clones of an already encoded sibling; the result is compared structurally with the generator's own mirror tree and the payload byte-for-byte. A deterministic prefix enumerates each of the 22 kinds, every ordered pair of kinds as a 2-set, multi-valued members, sets of collections, nested collections, repeated/empty groups and every boundary length. Held = no difference on the executions listed in the evidence; nothing is claimed about messages not generated.",
    note="Trusted: the harness's own mirror conversion (public API only) and generator. Domain as in the property's quantifier (utc_dir one octet; Other.tag among tags without a kind of their own)."),
 "C03": dict(
    level="exploration", design="2/C03",
    technique="runtime monitor: independent RFC 8010 reference decoder/encoder (no code shared with ipp) judging the library's bytes over many fresh map instances",
    text="The bytes of to_bytes() for each generated message (T fresh instances per message, so the randomly keyed maps take different iteration orders; every other instance is built through IppAttributes::add alone or add() + attributes_mut(), with replaced decoys, when additions can produce the message; the last instance is a modified clone of an already encoded sibling message) are decoded by an independent strict RFC 8010 decoder (exact lengths, registered body widths, separators with empty name and own tag, collection bracketing, unique names, exactly one end tag, operation group first), the decoded content is compared with the mirror of what was encoded, and a reference encoder given the observed attribute order must reproduce the bytes exactly. The evidence reports how many cases showed more than one in-memory iteration order and more than one order on the wire across the instances (observed, not demanded: a sorting encoder or ordered containers legitimately show one).",
    note="Trusted: the reference codec (ippref), written from RFC 8010 and anchored at start-up to hand-transcribed RFC example messages."),

 "C02": dict(
    level="exploration", design="2/C02",
    technique="runtime monitoring with crash attribution: catch_unwind + child processes whose signal handler names the (case, phase) that aborted; logical-step hang oracles (reads past EOF, polls without wake-up); Miri/ASan layers",
    text="The quantifier's input families are executed literally: every <=2-byte tail and a 1M-sample (thorough: all 2^24) of 3-byte tails after a valid header, the full tag x length x fill x truncation grid (also straight into IppValue::parse), all with-language inner-length pairs, every token sequence up to length 4 (thorough 5) over the 16-token alphabet, seeded grammar-aware mutations, every tag with every 1-byte body and selected 2-byte bodies, every tag with periodic self-describing bodies (a short word such as 00 00 00 7f repeated to 12 B..64 KiB, run on a 2 MiB stack), every pair of 24 lengths (0..4097) as consecutive names / values / member names / member values, names of 21845..65535 undecodable octets, a dictionary of tricky (escape-, number- and URI-shaped) strings under every text-like tag, foreign-protocol preambles in place of the header, and 14 structural bomb families up to 1 MiB with each phase (parse, display, debug, encode, traverse, clone+eq, drop) in its own process. Both parsers run on every input; any panic, abort, stack overflow, read loop past EOF or unproductive poll loop is a violation carrying the input; the parsed result is also re-encoded after being edited through attributes_mut() / groups_mut() / add(). The recorded stack overflows of post-parse recursion on deeply nested collections are listed known findings (exact family+phase signatures); anything else still fails the check.",
    note="8 MiB case-thread stack; hang decided on logical steps, wall clock only as watchdog (inconclusive). Inputs not executed are not covered."),
 "C04": dict(
    level="exploration", design="2/C04",
    technique="runtime monitor: reference interpretation (independent RFC 8010 decoder + interp) vs parser result over grammar-generated wire trees and enumerated token sequences",
    text="Wire-level message trees are generated from the RFC 8010 grammar (every value tag 0x10-0x4a, non-UTF-8 text, repeated/empty groups, messages not starting with the operation group, mixed sets, multi-valued members, sets of collections, boundary lengths), encoded by the reference encoder and parsed by the library; the result read through the public API must equal the reference interpretation. Every 6th message is additionally read as the second message of a stream, through the reader parse_parts() handed back for the first. Every token sequence up to length 4 (thorough 6) that the reference decoder accepts is judged the same way, bytes outside the registered delimiter and value-tag ranges (0x00, 0x0b-0x0f, 0x80-0xff) substituted at tag positions must yield exactly InvalidTag(b), and bytes a library may come to accept (0x06-0x0a, 0x4b-0x7f) must be rejected or represented, never skipped. Coverage floors (all 57 non-structural value tags, each listed form seen) make a thin run inconclusive.",
    note="Trusted: ippref (reference codec), anchored to RFC example vectors. Inputs the reference decoder rejects are not judged."),
 "C05": dict(
    level="exploration", design="2/C05",
    technique="runtime monitor: differential oracle blocking vs async parser under scripted delivery schedules driven by a manual executor (all compositions for short inputs, not-ready/deferred-wake injection)",
    text="For a strided sample of the C02 hostile corpus and C04 well-formed trees the blocking parser's outcome (content incl. payload, or error kind incl. offending tag / I/O kind) is compared with the async parser's under: whole, 1-byte, uniform chunks, random compositions with 0-2 Pending results per boundary (immediate or deferred wake), and for a budgeted set of inputs of 9..16 (thorough 21) bytes all 2^(n-1) compositions, short ones additionally under 7 not-ready patterns. The header-and-attributes-only entry point is compared as well (same outcome, same trailing bytes through reader.into_inner()). Deadlock and busy-loop are logical-step verdicts of the executor. Evidence reports schedules, polls, pendings and deferred wakes actually observed.",
    note="Schedules are delivered by the harness's scripted AsyncRead; real reactors are covered by C11."),
 "C06": dict(
    level="exploration", design="2/C06",
    technique="runtime monitor: invariant on the scripted source's read log (bytes delivered at return == offset of end-of-attributes tag + 1) plus differential result check across fragmentations (each parser against its own unfragmented result)",
    text="Four entry points (blocking/async x parse/parse_parts) are run per (message, payload, schedule). The scripted source implements plain and native vectored reads, and honours the full requested size in 'whole' mode, so any layer that reads ahead over-consumes and is seen in the log; other schedules go down to 1-byte reads, Interrupted before every read (blocking), Pending with immediate/deferred wake (async) and all 2^(n-1) compositions for short messages. Checked (a zero-length read on the payload first): position at return, the reader from parse_parts yields exactly the rest, payload byte-identical (quick up to 2.3 MB i.e. beyond 2^20, thorough up to 17 MB i.e. beyond 2^24, incl. payloads that are themselves IPP messages); the hand-enumerated shapes with every boundary length (incl. 32767/32768) run as a deterministic prefix, result equal to the unfragmented parse.",
    note="End-tag offset computed by the reference decoder. Trusted: scripted source and log."),
 "C07": dict(
    level="fault_enumeration", design="2/C07",
    technique="runtime fault injection: exhaustive per-message enumeration of cut points and (offset, I/O error kind) faults on a scripted source, both parsers",
    text="For each of 300 (thorough 20000) well-formed messages (9 B - 2 KiB of header+attributes, incl. builder requests) every cut point before the end tag and every (offset, kind) single fault over 8 error kinds is injected, under whole and fragmented delivery, into both parsers; a cut must give Err, a fault must give Err(IoError) of exactly the injected kind; Ok or panic is a violation; every 5th (offset, kind) pair also with the stream reaching the parsers through an IppPayload, plus sampled cuts and faults around names / values of up to 65535 octets. Enumeration is exhaustive per message, sampling is over messages.",
    note="Faults are single (one per run). WouldBlock judged for the blocking reader only, as the property states."),
 "C09": dict(
    level="exploration", design="2/C09",
    technique="runtime monitor: positional oracle on the reference decoder's reading of to_bytes(), each program rebuilt many times with fresh randomly keyed maps",
    text="Every builder/constructor program of C10 (or a raw request/response) followed by 0..6 shuffled further additions (every third case encoding the message before and between them; raw requests over every operation the library knows) (vocabulary incl. job-id, job-uri, the header attributes and every RFC 8011 operation attribute name) is rebuilt 32 (thorough 256) times; in every instance the operation group must come first with attributes-charset 1st, attributes-natural-language 2nd, printer-uri or job-uri 3rd and, for job operations, job-id 4th (printer-uri + job-id). How many cases showed more than one order of the unconstrained attributes across the rebuilt instances is reported as evidence (a sorting encoder legitimately shows one).",
    note="printer-uri together with job-uri is not generated (undefined by RFC 8011)."),
 "C10": dict(
    level="exploration", design="2/C10",
    technique="runtime monitor: reference-model oracle (per-operation reference request) vs the built request, in memory and as decoded from its bytes by the reference decoder",
    text="Random builder programs over the 10 operations (builders and operation structs), with repeated setters, arbitrary UTF-8 arguments, boundary job ids, 0/1/n requested attributes, G5 target URIs, documents handed over by a buffer-filling source or in short reads of 1-9 octets, and G1 job attribute values with recurring (name, value) pairs (x, y, x) under a pool of 44 attribute names (job-template names, document/operation attribute names a library might special-case, the header attribute names, look-alikes) plus arbitrary strings, are executed against the library and compared with a reference request (registry operation code, version 1.1, positive request-id, exactly the expected attributes with the stated syntaxes in the right group, last-wins for extras, payload bytes); plus the raw constructors over every registered operation and every status the library has a symbol for (header and wire octets).",
    note="Reference canonical printer-uri comes from the harness's own URI splitter (C13's oracle)."),
 "C13": dict(
    level="exploration", design="2/C13",
    technique="runtime monitor: component oracle with taint markers over an exhaustive URI component grid plus seeded random URIs",
    text="Targets are assembled from known components (138240-point grid over scheme x host form x port x user-info x path x query, plus random, including registered-name hosts of 200-4000 octets), user-info and query carry markers; the canonical printer-uri from the helper, from all 9 URI-taking constructors and from the raw constructor under each of the five protocol versions is split by an independent splitter and compared component-wise, the markers must not occur anywhere in the request bytes, canonicalisation must be idempotent, and every judged call is preceded by three look-alike targets (authority case swapped; other credentials, port, query, scheme or path case; default port spelled out or left out) so that a result remembered from an earlier call shows. Hosts are compared ASCII-case-insensitively ('the same host').",
    note="Targets http::Uri refuses are counted and skipped."),
 "C14": dict(
    level="exploration", design="2/C14",
    technique="runtime monitor at a cfg-guarded hook (verif_transport_url): component oracle over the C13 grid plus random URIs with look-alike pre-calls (history independence); plus a live loopback peer observing request line and Host header of both clients",
    text="The private mapping the clients use is reached through the add-only hook and compared component-wise with the reference mapping (ipp->http, ipps->https, 631 when no port, explicit port kept, everything else unchanged, http/https untouched) over the full grid and random URIs, each judged call preceded by three look-alike targets (authority case swapped; other credentials / port / query / scheme / path case; default port spelled out or left out) so that a mapping remembered from an earlier call shows; every 4th target is also mapped through a client object (IppClient::new(target).uri()), which must give the same URL, so that a constructor rewriting its target shows; the grid includes option-like queries such as encryption=required. The second observation point is live: both clients send to explicit-port targets (ipp/http x three host spellings x four user-info forms x six path/query forms = 288 sends) and the loopback peer must see exactly one request on that port whose request target equals the target's path and query and whose single Host header equals host:port; 64 further sends go to a peer that answers any target, with no path, '/', '/?query' and the shortest paths, whose request line must carry exactly that; clients built by the plain constructors must hold a target that maps like the one given; a client re-used after an HTTP 426 / 3xx / 4xx / 5xx answer must contact the same URL again. The port-less ipps -> 443 mapping is a listed known finding with an exact signature; any other discrepancy fails the check.",
    note="Hook: --cfg ancwrd1_ipp_rs_verif. Port-less targets cannot be observed live (port 631 is not bindable here); they are covered by the hook."),

 "C08": dict(
    level="exploration", design="2/C08",
    technique="runtime monitor: byte-for-byte stream oracle (collected stream vs to_bytes() ++ payload) under scripted payload sources, varying consumer buffers, manual executor and the real block_on bridge",
    text="Each generated message is consumed through into_read and into_async_read with payload sources {none, blocking scripted reader, async scripted reader}, payloads from 0 B to MiBs delivered with random chunking, Interrupted and Pending (immediate / deferred wake, helper-thread wakes under the blocking bridge), and consumer read-buffer sizes varying per call from 1 B to 64 KiB; every 7th message has no operation-attributes group; the collected bytes must equal to_bytes() of the same instance (whose 8 header octets are themselves judged against the header values, whose attribute section is read by the reference decoder and must mean the message, and which in every 4th case is taken before the header is changed through header_mut(), the stream having to carry the header as it is now) followed by exactly the payload, end with repeated clean EOF, and drain the source. Cross pairs (blocking payload via async, async payload via blocking) are part of every run.",
    note="Every 4th blocking consumption of an async payload hands the half-read stream to a second thread. A consumer that has not polled the source again 20 s after the source's helper thread signalled readiness is reported as a lost wake-up (bounded progress); any other consumption exceeding 300 s is inconclusive."),
 "C15": dict(
    level="exploration", design="2/C15",
    technique="runtime cost monitoring on deterministic step measures: counting global allocator (bytes, calls) and cachegrind instruction counts over doubling input families; incremental-ratio oracle",
    text="34 doubling families plus a hash-flood family (names with ASCII capitals and of mixed character classes for attributes and members; nesting with/without member names and with multi-valued members, set width with one tag, with eight alternating tags at top level and inside a collection member, and with distinct keyword strings, set of collections, one wide collection followed by many small ones, thousands of attributes or members sharing one or three names, a wide set led by thousands of no-value entries, long text / keyword / text-with-language values, a long run of other groups followed by as many operation-group delimiters, attribute/group/member count in ascending, descending and shuffled name order, value/name length, invalid-UTF-8 names and values, four malformed floods), both parsers, sizes 2 KiB to 256 KiB (thorough 1 MiB) for the allocation measure and 4 KiB to 64 KiB (thorough 1 MiB) under cachegrind. With a logger installed that takes every level, the volume the library formats into log records is a third step measure (11 families). Growing reallocs count with their full requested size. Growth per doubling is 2 x the marginal cost per input byte of the last doubling over the steepest marginal cost of any earlier doubling (where marginal cost never falls this is (c(4n)-c(2n))/(c(2n)-c(n)): n log n stays near 2, quadratic gives 4); two doublings in a row above 2.6 are a violation (one alone is a suspicion the next doubling, taken even beyond the size cap, confirms or clears, so a one-off step between buffering regimes is not mistaken for super-linear cost), as is allocated bytes > 256 KiB + 1024 n. Wall clock is never a verdict; a series stops at its first violation so a quadratic tree is reported at KiB sizes within seconds.",
    note="Instruction counts include process start-up and input generation (linear, cancelled by taking increments). Only the families listed are covered."),
 "C16": dict(
    level="exploration", design="2/C16",
    technique="runtime monitor by complete enumeration of the finite code domains against registry tables embedded in the harness (exhaustive: true)",
    text="All 65536 16-bit values go through StatusCode::from_u16, IppHeader::status_code (a fresh header, one header object re-used for every code, and its clone), both parsers reading the code off the wire under two protocol versions, is_success and Operation::from_u16, all 256 bytes through the delimiter and value tag enums, -4..65535 through the five attribute enums, the tag emitted for every value kind is compared with the registry, every value decoded from each of the 256 tag bytes over 74 bodies must be emitted with the same tag, every byte the parser accepts in delimiter position must be reported and re-emitted as itself, every value tag read by the parser under well-known attribute names must stay that tag, and every registered value of the five attribute enums must decode (except 15 finishings the pinned library does not have: unjudged). A registered code must give the variant the registry names for it, any other code 'unknown' or a symbol naming no registered code (a code missing from the harness's tables is unjudged unless its symbol is the registry's name for a different code, so that correct table extensions do not alarm), success for the RFC 8011 successful codes and never for a code above 0x00ff (0x0003-0x00ff left open, as the property does), and every variant must cast back to the integer it was decoded from. The domain is finite and enumerated completely on every run.",
    note="Trusted: the registry tables typed in from RFC 8010/8011, PWG 5100.1 and the CUPS specification; identifier comparison is modulo case and punctuation with listed aliases."),
 "C17": dict(
    level="exploration", design="2/C17",
    technique="runtime monitor: three-valued reference decision vs is_printer_ready over an exhaustive small grid plus seeded random responses, each judged in memory and after encode->parse",
    text="Responses over the grid status code x printer-state form x printer-state-reasons form (absent, every single keyword, blocking keyword at every position of sets of 2..6, informational-only sets) x unrelated look-alike attributes and groups (among them a second, idle printer group reporting 'none' behind the judged first one) are judged against the reference decision (must-error with the same status, must-be-false, must-be-true, unspecified), both built in memory (half of them through IppAttributes::add alone, with replaced decoys) and after reference encoding and library parsing so that the parser decides set versus single value. Thorough adds every one of the 65536 status codes.",
    note="Suffix forms of blocking keywords (-warning/-report) and wrong-syntax states without a blocking reason are treated as unspecified, as the property states nothing about them."),
 "C19": dict(
    level="exploration", design="2/C19",
    technique="model-based runtime monitor: ordered reference model stepped in lock-step with IppAttributes::add, compared after every operation; iterator traversal vs model",
    text="All add-sequences of length <= 4 (thorough 5) over a 16-operation alphabet (4 group kinds x 2 names x 2 values), and of length <= 3 over two more alphabets (the specially treated names; names differing only in letter case / the empty name x scalar / empty set) are run from the empty container and from two parser-produced containers with repeated and empty groups, comparing groups(), groups_of(kind) for all kinds after every add and into_groups() at the end with a Vec-based model; random sequences of up to 200 adds with G1 values extend this. Value traversal is compared with the model (set in order, collection in member-name order, scalar once, then None thrice; the same order through nth after j next() calls, skip, step_by, count, last and size_hint) for every kind, wide and empty containers and random values.",
    note="Enumeration is complete for the stated alphabet and lengths; beyond that sampling."),

 "C20": dict(
    level="exploration", design="2/C20",
    technique="runtime monitor: differential round-trip oracle through serde_json with the serde feature compiled in (separate harness crate), mirror equality",
    text="The harness builds ipp with the serde feature (which the repository's suite never compiles), serialises each generated message (payload attached) to JSON and deserialises it through five serde_json carriers (to_string/from_str, to_vec/from_slice, to_writer/from_reader i.e. a non-borrowing deserialiser, to_value/from_value i.e. the tree form, to_string_pretty/from_str) and compares header, groups, names and values with the mirror of what was serialised; the payload must read as empty afterwards. IppAttributes alone and every IppValue alone go through the same round trip; each message is also serialised again after an edit through attributes_mut(). All 22 kinds, raw-octet values, nested collections of every depth 2..20 and beyond wherever serde_json itself accepts the JSON, and boundary lengths are covered by the shapes prefix and seeded random messages.",
    note="JSON (serde_json) as the carrier; a message nested deeper than 20 collection levels is skipped only if serde_json itself refuses the JSON text (decided on the untyped tree, without the library's Deserialize code)."),

 "C11": dict(
    level="exploration", design="2/C11",
    technique="runtime monitoring against a live scripted loopback HTTP peer: offline checker over the joined client-call log and peer event log (exactly-once, content equality, error outcomes); fault injection at every cut offset; TSan/ASan layers in thorough",
    text="Both clients talk to a raw std::net HTTP/1.1 peer that records every connection, request (line, headers, decoded body) and response. Random exchanges cover payloads from 0 B to MiBs from fragmented / interrupted / not-ready sources, response documents up to 3 MB (thorough 17 MB), custom headers, Basic credentials (incl. empty user / password and credentials replacing earlier ones), requests whose header is changed after a first to_bytes(), ipp:// and http:// targets with path and query, and responses under content-length, chunked and close-delimited framing with write fragmentation; every 4xx/5xx status (quick: 20, thorough: all 200) carrying a valid IPP body, a connection cut at every offset inside the response's header+attributes under each framing, and a stalled server with request_timeout must give Err; 16 concurrent senders x 20 sends through one client are matched to their own responses by unique request-id and marker. The checker demands exactly one POST per send with the exact target, Host, Content-Type, headers and credentials and a body that decodes (reference decoder) to exactly the request and payload, and response equality including trailing data.",
    note="Quick runs the plain-HTTP feature build (no TLS set-up cost per send); thorough repeats the workload on the native-tls and rustls builds. Timeouts judged on outcome only."),
 "C12": dict(
    level="exploration", design="2/C12",
    technique="runtime monitoring of a complete configuration matrix against a loopback rustls peer with freshly generated CAs; oracle on send() outcome and on decrypted bytes seen by the peer application (exhaustive: true)",
    text="The finite matrix {blocking, async} x {native-tls, rustls} x ignore flag {unset, false, true} x extra root {none, correct PEM, correct DER, correct PEM with CRLF line endings, correct PEM behind its openssl text dump, unrelated} x server certificate {valid, wrong host, expired, self-signed, unknown CA} x a second, tiny Ed25519 root family (DER shorter than 256 bytes and ending in a 0x0a octet) and a leaf that expired seconds before the run and a third root whose PEM body consists of full 64-character lines only, with a leaf under it = 864 cells on the two uniform builds, plus the two mixed-backend builds (blocking native-tls + async rustls, blocking rustls + async native-tls: a 36-cell sub-matrix each in quick, the full matrix in thorough), the target spelled ipps:// or https:// (quick: one spelling per cell chosen by cell hash and seed; thorough: both) and its host written as localhost or as the IP literal 127.0.0.1 (one per cell by hash and seed; localhost leaves carry dNSName and iPAddress SANs, the wrong-host leaf matches neither) is executed completely on every run (four harness builds: both clients on native-tls, both on rustls, and the two mixed feature sets). Builder calls are issued in varying orders with earlier values of the ignore flag. A cell must accept exactly when the caller opted out or supplied the correct root for a valid leaf; in every rejected cell the peer application must not have received a single decrypted byte. Client-reuse sequences: one client object sends to a valid peer, which announces Connection: close and is then restarted on the same port with an expired / wrong-host / valid certificate (new TLS configuration: a kept-alive connection or a resumed session - both continuations of the authenticated exchange - are not on offer); the second send must be refused / refused / accepted. Thorough repeats the matrix against TLS 1.2-only and 1.3-only peers.",
    note="Certificates are generated with the openssl CLI at check time; trust decisions are those of the OpenSSL / rustls versions in this image."),
 "C18": dict(
    level="exploration", design="2/C18",
    technique="runtime monitoring of the real ipputil binary (built from /repo/util) as a child process against the scripted loopback peer: offline checker over the peer event log and the exit status",
    text="ipputil print is run with generated command lines (file or stdin documents of 0 B to MiBs of arbitrary bytes, optional job and user names, options over every textual class incl. i32 boundaries, values containing '=' and empty values, -n on/off, extra headers, http and ipp targets) against scripted printers (state, reasons, IPP status of each reply, HTTP errors; requested-attributes honoured as RFC 8011 4.2.5 prescribes). A deterministic prefix of 140 scenarios runs every registered non-successful status on the state query and on Print-Job, HTTP errors on either exchange, every blocking reason alone and at each position of a set (also behind 'none'), stopped/idle/processing states, -n against blocked printers, and carries one of 40 tricky option values each (booleans with case/space variants, i32 boundaries and overflow, leading zeros, values containing '=' and ',', empty and blank values). The checker derives the expected exchange sequence, compares the submitted document byte-for-byte, the typing of every option with a reference text classifier, the name attributes, the extra headers and the exit status.",
    note="Exit status after a not-ready refusal is recorded, not judged. 140 scenario + 60 random runs quick, 140 + 2000 thorough. Status codes 0x0003-0x00ff are not scripted (C16 leaves their class open)."),
}

REASON_TODO = "check not built yet in this revision of /verif (planned; see DESIGN.md section 2)"

def main():
    checks = []
    for pid in ALL:
        if pid not in CHECKS:
            continue
        c = CHECKS[pid]
        checks.append({
            "property_id": pid,
            "quick_cmd": f"./check {pid} --tier quick",
            "thorough_cmd": f"./check {pid} --tier thorough",
            "evidence_file": f"/verif/evidence/{pid}.json",
            "replay_cmd_template": f"./check {pid} --replay {{path}}",
            "engine": "runtime-monitors",
            "level_claimed": {"category": c["level"], "text": c["text"], "design_ref": "DESIGN.md section " + c["design"]},
            "level_note": c["note"],
            "technique": c["technique"],
        })
    m = {
        "version": 1,
        "setup_cmd": "cd /verif && ./setup.sh",
        "hooks": {
            "guard": "--cfg ancwrd1_ipp_rs_verif",
            "enable": "harness/.cargo/config.toml sets rustflags = [\"--cfg\", \"ancwrd1_ipp_rs_verif\"]; the harness crates path-depend on /repo/ipp so every check rebuilds the working tree with the hook on",
            "baseline_off_cmd": "cd /repo && cargo test --workspace --no-fail-fast --offline",
            "source_commits": hooks_commits(),
            "add_only": True,
        },
        "engines": [{
            "name": "runtime-monitors",
            "path": "/verif/harness",
            "serves_properties": [p for p in ALL if p in CHECKS],
            "kind_free_text": "cargo workspace of monitor binaries (reference codec ippref, generators/scripted sources/executor/counting allocator vkit, monitors vcore/vserde/vnet) driven by /verif/check; sanitizer layers: Miri, ASan, TSan, cachegrind",
        }],
        "checks": checks,
        "not_applicable": [{"property_id": p, "reason": REASON_TODO} for p in ALL if p not in CHECKS],
        "notes": "Technique family: runtime monitoring and sanitizers. Every monitor binary installs an all-levels sink logger so that the arguments of the library's log macros are evaluated (except the C15 cost measurements). Thorough tiers of C01-C08 and C19 add Miri, AddressSanitizer and (C01-C07, C19) a coverage-guided libFuzzer layer whose crash oracle is the property's own monitor; C11 thorough adds ThreadSanitizer; C15 uses cachegrind. Exit codes: 0 held (or only listed known findings), 1 violation with replay file, 2 inconclusive (never a VIOLATION line). Known findings: /verif/known_findings.txt.",
    }
    with open("/verif/MANIFEST.json", "w") as f:
        json.dump(m, f, indent=1)
        f.write("\n")

if __name__ == "__main__":
    main()
