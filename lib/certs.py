#!/usr/bin/env python3
"""Generate the certificate zoo for C12 with the openssl CLI (fresh CAs: no system root can vouch for them)."""
import os
import subprocess
import sys
import tempfile


def sh(cmd, cwd=None):
    r = subprocess.run(cmd, cwd=cwd, stdout=subprocess.PIPE, stderr=subprocess.STDOUT, text=True)
    if r.returncode != 0:
        raise RuntimeError(f"{' '.join(cmd)} failed:\n{r.stdout}")
    return r.stdout


def make(outdir):
    os.makedirs(outdir, exist_ok=True)
    marker = os.path.join(outdir, "READY")
    if os.path.exists(marker):
        os.remove(marker)
    o = lambda n: os.path.join(outdir, n)
    # three CAs
    for ca in ("ca1", "ca2", "ca3"):
        sh(["openssl", "req", "-x509", "-newkey", "rsa:2048", "-nodes", "-keyout", o(f"{ca}.key"), "-out", o(f"{ca}.pem"), "-days", "3650",
            "-subj", f"/CN=verif {ca} root", "-addext", "basicConstraints=critical,CA:TRUE", "-addext", "keyUsage=critical,keyCertSign,cRLSign"])
    sh(["openssl", "x509", "-in", o("ca1.pem"), "-outform", "DER", "-out", o("ca1.der")])
    sh(["openssl", "x509", "-in", o("ca2.pem"), "-outform", "DER", "-out", o("ca2.der")])
    # the same root as `openssl x509 -text` prints it: kilobytes of explanatory text in front of the PEM block (RFC 7468 allows it)
    open(o("ca1.text.pem"), "w").write(sh(["openssl", "x509", "-in", o("ca1.pem"), "-text"]))
    assert open(o("ca1.text.pem")).read().index("-----BEGIN ") > 1500

    def leaf(name, ca, san, startdate=None, enddate=None):
        sh(["openssl", "req", "-newkey", "rsa:2048", "-nodes", "-keyout", o(f"{name}.key"), "-out", o(f"{name}.csr"), "-subj", f"/CN={san}"])
        with tempfile.TemporaryDirectory() as td:
            open(os.path.join(td, "index.txt"), "w").close()
            open(os.path.join(td, "serial"), "w").write("1000\n")
            cnf = os.path.join(td, "ca.cnf")
            open(cnf, "w").write(f"""
[ ca ]
default_ca = CA_default
[ CA_default ]
dir = {td}
database = {td}/index.txt
new_certs_dir = {td}
serial = {td}/serial
default_md = sha256
policy = policy_any
unique_subject = no
copy_extensions = none
[ policy_any ]
commonName = supplied
[ leaf_ext ]
basicConstraints = CA:FALSE
keyUsage = digitalSignature, keyEncipherment
extendedKeyUsage = serverAuth
subjectAltName = {"IP:" + san if san[0].isdigit() else "DNS:" + san}
""")
            cmd = ["openssl", "ca", "-batch", "-config", cnf, "-cert", o(f"{ca}.pem"), "-keyfile", o(f"{ca}.key"), "-in", o(f"{name}.csr"),
                   "-out", o(f"{name}.pem"), "-extensions", "leaf_ext", "-notext"]
            if startdate:
                cmd += ["-startdate", startdate, "-enddate", enddate]
            else:
                cmd += ["-days", "3650"]
            sh(cmd)
        os.remove(o(f"{name}.csr"))

    leaf("valid", "ca1", "localhost")
    leaf("wronghost", "ca1", "wrong.example")
    # valid for the IP literal only (iPAddress SAN, no dNSName): accepted for a 127.0.0.1 target, a name mismatch for a localhost target
    leaf("validip", "ca1", "127.0.0.1")
    leaf("expired", "ca1", "localhost", startdate="20200101000000Z", enddate="20210101000000Z")
    leaf("unknownca", "ca3", "localhost")
    # expired only moments ago (a verifier that tolerates "clock skew" would accept it)
    import datetime
    now = datetime.datetime.now(datetime.timezone.utc)
    fmt = lambda t: t.strftime("%Y%m%d%H%M%SZ")
    leaf("justexpired", "ca1", "localhost", startdate=fmt(now - datetime.timedelta(days=1)), enddate=fmt(now - datetime.timedelta(seconds=45)))
    # self-signed leaf
    sh(["openssl", "req", "-x509", "-newkey", "rsa:2048", "-nodes", "-keyout", o("selfsigned.key"), "-out", o("selfsigned.pem"), "-days", "3650",
        "-subj", "/CN=localhost", "-addext", "subjectAltName=DNS:localhost", "-addext", "basicConstraints=CA:FALSE"])
    # a tiny Ed25519 root (DER < 256 bytes, so its outer SEQUENCE uses the short 0x30 0x81 length form) and a leaf under it
    mincnf = o("ca4.cnf")
    open(mincnf, "w").write("""[req]
distinguished_name = dn
x509_extensions = v3
prompt = no
[dn]
CN = e
[v3]
basicConstraints = critical,CA:TRUE
subjectKeyIdentifier = none
authorityKeyIdentifier = none
""")
    # ... whose DER encoding moreover ENDS in a newline byte (an Ed25519 signature's last octet is <= 0x10, so a few tries
    # suffice): a builder that "trims" or "sniffs" the supplied bytes as if they were text corrupts exactly such roots
    for attempt in range(2000):
        sh(["openssl", "req", "-x509", "-newkey", "ed25519", "-nodes", "-keyout", o("ca4.key"), "-out", o("ca4.pem"), "-days", "3650", "-config", mincnf, "-set_serial", "1"])
        sh(["openssl", "x509", "-in", o("ca4.pem"), "-outform", "DER", "-out", o("ca4.der")])
        if open(o("ca4.der"), "rb").read()[-1] == 0x0A:
            break
    else:
        raise RuntimeError("no Ed25519 root ending in 0x0a after 2000 attempts")
    assert os.path.getsize(o("ca4.der")) < 256, os.path.getsize(o("ca4.der"))
    sh(["openssl", "req", "-newkey", "ed25519", "-nodes", "-keyout", o("valided.key"), "-out", o("valided.csr"), "-subj", "/CN=localhost"])
    ext = o("valided.ext")
    open(ext, "w").write("basicConstraints=CA:FALSE\nkeyUsage=digitalSignature\nextendedKeyUsage=serverAuth\nsubjectAltName=DNS:localhost\n")
    sh(["openssl", "x509", "-req", "-in", o("valided.csr"), "-CA", o("ca4.pem"), "-CAkey", o("ca4.key"), "-set_serial", "77", "-days", "3650", "-extfile", ext, "-out", o("valided.pem")])
    os.remove(o("valided.csr"))
    assert "OK" in sh(["openssl", "verify", "-CAfile", o("ca4.pem"), o("valided.pem")])
    # a fifth root whose PEM body has no short last line: DER length 48k, 48k-1 or 48k-2 gives k full 64-character base64 lines
    # (a hand-rolled PEM reader that takes "the first short line" for the end of the body never finds one)
    sh(["openssl", "genrsa", "-out", o("ca5.key"), "2048"])
    for pad in range(0, 64):
        sh(["openssl", "req", "-x509", "-key", o("ca5.key"), "-out", o("ca5.pem"), "-days", "3650", "-set_serial", "5",
            "-subj", "/CN=verif ca5 root " + "x" * pad, "-addext", "basicConstraints=critical,CA:TRUE", "-addext", "keyUsage=critical,keyCertSign,cRLSign"])
        sh(["openssl", "x509", "-in", o("ca5.pem"), "-outform", "DER", "-out", o("ca5.der")])
        if os.path.getsize(o("ca5.der")) % 48 in (0, 46, 47):
            break
    else:
        raise RuntimeError("no ca5 with a DER length of 48k-2..48k")
    body = [l for l in open(o("ca5.pem")).read().splitlines() if l and not l.startswith("-----")]
    assert all(len(l) == 64 for l in body), [len(l) for l in body]
    leaf("validfull", "ca5", "localhost")
    assert "OK" in sh(["openssl", "verify", "-CAfile", o("ca5.pem"), o("validfull.pem")])
    # sanity: openssl's own verdicts
    ok = sh(["openssl", "verify", "-CAfile", o("ca1.pem"), o("valid.pem")])
    assert "OK" in ok, ok
    r = subprocess.run(["openssl", "verify", "-CAfile", o("ca1.pem"), o("expired.pem")], stdout=subprocess.PIPE, stderr=subprocess.STDOUT, text=True)
    assert r.returncode != 0 and "expired" in r.stdout, r.stdout
    open(marker, "w").write("ok\n")


if __name__ == "__main__":
    make(sys.argv[1] if len(sys.argv) > 1 else "/verif/work/certs")
    print("certs ready")
