#!/usr/bin/env python3
"""validate MANIFEST.json and evidence/*.json against the schemas (tooling venv has jsonschema)"""
import json, sys, glob
import jsonschema
ok = True
m = json.load(open('/verif/MANIFEST.json'))
jsonschema.validate(m, json.load(open('/root/.vp/MANIFEST.schema.json')))
print('MANIFEST ok:', len(m['checks']), 'checks,', len(m.get('not_applicable', [])), 'not_applicable')
s = json.load(open('/root/.vp/EVIDENCE.schema.json'))
for f in sorted(glob.glob('/verif/evidence/*.json')):
    try:
        jsonschema.validate(json.load(open(f)), s)
        print(f, 'ok')
    except Exception as e:
        ok = False
        print(f, 'INVALID', str(e)[:300])
sys.exit(0 if ok else 1)
