#!/usr/bin/env python3
"""Prepare one scratch worktree + TASK.md per property for a round of property-PRESERVING changes
(the checks must stay silent on them). Sub-agents get only the property text and the worktree.

  selftest/mkpreservetasks.py <round-dir>
"""
import json
import os
import subprocess
import sys

ROOT = sys.argv[1]
EXTRA = {
 "C14": "(The mapping function is private; a cfg-guarded public wrapper ipp::client::verif_transport_url exists and must keep working: RUSTFLAGS='--cfg ancwrd1_ipp_rs_verif', feature 'client'. The port-less ipps -> 443 mapping is a known deviation: leave it as it is.)",
 "C02": "(The stack overflow of clone/drop/display on ~1 MiB deeply nested collections is already known: do not change that behaviour either way.)",
 "C20": "(Enable with --features serde.)",
}
DONE = {
"C01": "streaming single-buffer encoder + flat parser stack; name-sorted attribute order + PartialEq derives + reworded error texts",
"C02": "length-checked cursor decoder; reworded errors + RFC 3380 value tags + from_bytes constructors",
"C03": "single-buffer encoder; name-sorted output + sorted_attributes()",
"C04": "coalesced name+length reads; new ValueTag variants + messages + PartialEq + group get()",
"C05": "one 8-byte header read, 1 KiB capped reads; reworded messages + getters + logging",
"C06": "read_array/read_vec helpers; position()/get_ref() + Debug impls + messages",
"C07": "read-fully loop over read(); position counter, io_error_kind(), From<IppParseError> for io::Error, reworded Display",
"C08": "private MessageReader struct; IppPayload::from_bytes + From impls + with_payload/into_parts",
"C09": "rank sort of the operation group; sorted tail + Hold/Release/Restart-Job operations",
"C10": "shared with_header/job_attrs helpers; Validate-Job operation + CreateJob::set_user_name + add_attributes",
"C11": "64 KiB upload blocks + 16 KiB BufReader; Accept: application/ipp + http_headers()/user_agent() + reworded RequestError",
"C12": "ServerAuth enum + helpers; ca_certs() + PEM bundles + logging",
"C13": "string-built canonical URI; ipps scheme for TLS targets + is_secure_uri() + printer_uri()",
"C14": "table-driven mapping; public transport_url() + case-insensitive scheme match",
"C15": "buffer take-over instead of copies; opt-in max collection depth + messages + accessors",
"C16": "binary-search status decode; 16 operations + 31 finishings + 7 status codes added",
"C17": "single group lookup, no Vec<String>; public printer_state()/blocking_state_reasons() + reworded errors",
"C18": "64 KiB document buffer + option helper; requested-attributes in the state query + reason line on stderr",
"C19": "cursor-enum iterator; insert/get/len + Extend/FromIterator + exact size_hint + FusedIterator",
"C20": "hand-written serde impls for the message; name-sorted JSON + serde/PartialEq derives on more types",
}
os.makedirs(ROOT, exist_ok=True)
here = os.path.dirname(os.path.dirname(os.path.abspath(__file__)))
for l in open(os.path.join(here, "properties.jsonl")):
    p = json.loads(l)
    pid = p["id"]
    d = f"{ROOT}/{pid}"
    subprocess.run(["git", "-C", "/repo", "worktree", "add", "--detach", d, "HEAD"], stdout=subprocess.DEVNULL, stderr=subprocess.DEVNULL)
    json.dump(p, open(d + "/PROPERTY.json", "w"), indent=1)
    task = f"""You are working in a scratch git worktree of the Rust project ancwrd1/ipp.rs (an IPP printing protocol library) at {d}. Work ONLY inside {d}. Do NOT read, list or modify /repo or /verif or other directories under {ROOT}.

The file {d}/PROPERTY.json contains ONE semantic property the library satisfies. Read it (statement AND quantifier), then the sources it refers to. {EXTRA.get(pid, "")}

A first round already produced these two changes for this property - do NOT repeat them or close variations: {DONE.get(pid, "")}.

Task: produce TWO different, realistic, NON-TRIVIAL code changes to the library sources (ipp/ or util/) in the code this property is about that KEEP THE PROPERTY TRUE for every input / configuration / schedule in its quantifier - changes a maintainer could well make and that an over-strict or brittle checker of this property might nevertheless flag or choke on:
  (This time prefer changes that touch OTHER aspects than the first round: different default values where the property leaves them open, different but permitted choices of representation, dependency-API usage, concurrency/ownership structure such as Arc/Mutex/OnceCell caches that are correctly invalidated, feature-gated code, behaviour OUTSIDE the property's quantifier - e.g. stricter or laxer handling of inputs the property does not cover.)
  1. an internal change: a behaviour-preserving refactoring, a different algorithm or data structure, different buffering / read sizes / allocation strategy, a performance improvement, reordered but equivalent steps, different (but still correct and equally specific) internal bookkeeping;
  2. an outward-visible but property-compatible change: an ADDITION to the public API (new enum variant, new public function or builder option, new trait impl, extended code table with correct values from the relevant registry, additional accepted inputs outside the property's domain), different error MESSAGES (same error kinds), different but equally valid output where the property leaves a choice (e.g. order of attributes the property does not constrain, equivalent header spellings), logging, documentation-driven renames of private items.
Neither change may break ANY clause of the property, the existing public API (additions only), or the existing tests. Be careful and conservative about correctness: re-read the statement after each change and argue clause by clause that it still holds; if in doubt, choose a safer change.

For each change k in {{1,2}} create {d}/preserving/k/ with: patch.diff (`git diff` against HEAD, library sources only, applies with `git apply`); notes.md (what changed, which observable details differ from before - e.g. read sizes, attribute order, new variants, messages - and the clause-by-clause argument why the property still holds; the commands you ran and their results). Actually run and confirm with the change applied: `CARGO_TARGET_DIR={d}/target cargo build --workspace --offline` and `CARGO_TARGET_DIR={d}/target cargo test --workspace --offline` (32 + 2 tests pass); also build the feature sets the change touches (e.g. `-p ipp --no-default-features --features client`, `--features serde`, `--features client-rustls,async-client-rustls`).

Rules: no network (cargo --offline, CARGO_TARGET_DIR={d}/target). Do not edit existing tests. At the end restore tracked files (`git checkout -- .`) so only preserving/ and target/ remain untracked. At most ~30 minutes. Final message: a 4-line summary per change (what, where, what observably differs, why the property still holds).
"""
    open(d + "/TASK.md", "w").write(task)
    print(d)
