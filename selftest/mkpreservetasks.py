#!/usr/bin/env python3
"""Prepare one scratch worktree + TASK.md per property for a round of property-PRESERVING changes
(the checks must stay silent on them). Sub-agents get only the property text and the worktree.

  selftest/mkpreservetasks.py <round-dir>
"""
import json
import os
import subprocess
import sys

ROOT = sys.argv[1]
EXTRA = {
 "C14": "(The mapping function is private; a cfg-guarded public wrapper ipp::client::verif_transport_url exists and must keep working: RUSTFLAGS='--cfg ancwrd1_ipp_rs_verif', feature 'client'. The port-less ipps -> 443 mapping is a known deviation: leave it as it is.)",
 "C02": "(The stack overflow of clone/drop/display on ~1 MiB deeply nested collections is already known: do not change that behaviour either way.)",
 "C20": "(Enable with --features serde.)",
}
os.makedirs(ROOT, exist_ok=True)
here = os.path.dirname(os.path.dirname(os.path.abspath(__file__)))
for l in open(os.path.join(here, "properties.jsonl")):
    p = json.loads(l)
    pid = p["id"]
    d = f"{ROOT}/{pid}"
    subprocess.run(["git", "-C", "/repo", "worktree", "add", "--detach", d, "HEAD"], stdout=subprocess.DEVNULL, stderr=subprocess.DEVNULL)
    json.dump(p, open(d + "/PROPERTY.json", "w"), indent=1)
    task = f"""You are working in a scratch git worktree of the Rust project ancwrd1/ipp.rs (an IPP printing protocol library) at {d}. Work ONLY inside {d}. Do NOT read, list or modify /repo or /verif or other directories under {ROOT}.

The file {d}/PROPERTY.json contains ONE semantic property the library satisfies. Read it (statement AND quantifier), then the sources it refers to. {EXTRA.get(pid, "")}

Task: produce TWO different, realistic, NON-TRIVIAL code changes to the library sources (ipp/ or util/) in the code this property is about that KEEP THE PROPERTY TRUE for every input / configuration / schedule in its quantifier - changes a maintainer could well make and that an over-strict or brittle checker of this property might nevertheless flag or choke on:
  1. an internal change: a behaviour-preserving refactoring, a different algorithm or data structure, different buffering / read sizes / allocation strategy, a performance improvement, reordered but equivalent steps, different (but still correct and equally specific) internal bookkeeping;
  2. an outward-visible but property-compatible change: an ADDITION to the public API (new enum variant, new public function or builder option, new trait impl, extended code table with correct values from the relevant registry, additional accepted inputs outside the property's domain), different error MESSAGES (same error kinds), different but equally valid output where the property leaves a choice (e.g. order of attributes the property does not constrain, equivalent header spellings), logging, documentation-driven renames of private items.
Neither change may break ANY clause of the property, the existing public API (additions only), or the existing tests. Be careful and conservative about correctness: re-read the statement after each change and argue clause by clause that it still holds; if in doubt, choose a safer change.

For each change k in {{1,2}} create {d}/preserving/k/ with: patch.diff (`git diff` against HEAD, library sources only, applies with `git apply`); notes.md (what changed, which observable details differ from before - e.g. read sizes, attribute order, new variants, messages - and the clause-by-clause argument why the property still holds; the commands you ran and their results). Actually run and confirm with the change applied: `CARGO_TARGET_DIR={d}/target cargo build --workspace --offline` and `CARGO_TARGET_DIR={d}/target cargo test --workspace --offline` (32 + 2 tests pass); also build the feature sets the change touches (e.g. `-p ipp --no-default-features --features client`, `--features serde`, `--features client-rustls,async-client-rustls`).

Rules: no network (cargo --offline, CARGO_TARGET_DIR={d}/target). Do not edit existing tests. At the end restore tracked files (`git checkout -- .`) so only preserving/ and target/ remain untracked. At most ~30 minutes. Final message: a 4-line summary per change (what, where, what observably differs, why the property still holds).
"""
    open(d + "/TASK.md", "w").write(task)
    print(d)
