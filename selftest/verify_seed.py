#!/usr/bin/env python3
"""Confirm a seeded change independently before keeping it:
  verify_seed.py <src_dir containing patch.diff + demo> <dest name under /verif/seeded> <property> [--demo FILE] [--cargo-args "..."] [--needs "..."]

In a scratch worktree (/tmp/vs, removed by the caller when done):
  1. the patch applies; the workspace builds; the existing suite passes with it (34 tests);
  2. the demonstration FAILS with the change;
  3. the demonstration PASSES without it.
Only then the change is copied to /verif/seeded/<name>/ with a meta.json."""
import json
import os
import re
import shutil
import subprocess
import sys

WT = os.environ.get("VS_WT", "/tmp/vs")  # VS_WT: verify inside another scratch worktree (e.g. the author's, with a warm target dir)


def sh(cmd, cwd=WT, timeout=3600):
    env = dict(os.environ, CARGO_TARGET_DIR=WT + "/target", CARGO_NET_OFFLINE="true")
    p = subprocess.run(cmd, cwd=cwd, env=env, stdout=subprocess.PIPE, stderr=subprocess.STDOUT, text=True, timeout=timeout, shell=isinstance(cmd, str))
    return p.returncode, p.stdout


def main():
    a = sys.argv[1:]
    src, name, prop = a[0], a[1], a[2]
    demo = None
    cargo_args = ""
    needs = ""
    demo_cmd = None
    i = 3
    while i < len(a):
        if a[i] == "--demo":
            demo = a[i + 1]
        elif a[i] == "--cargo-args":
            cargo_args = a[i + 1]
        elif a[i] == "--needs":
            needs = a[i + 1]
        elif a[i] == "--demo-cmd":
            demo_cmd = a[i + 1]
        i += 2
    if not os.path.exists(WT):
        rc, out = sh(["git", "-C", "/repo", "worktree", "add", "--detach", WT, "HEAD"], cwd="/")
        assert rc == 0, out
    sh(["git", "checkout", "--", "."])
    sh(["git", "clean", "-fdq", "-e", "target", "-e", "seeded", "-e", "TASK.md", "-e", "PROPERTY.json"])
    head = subprocess.check_output(["git", "-C", "/repo", "rev-parse", "HEAD"], text=True).strip()
    sh(["git", "checkout", "-q", "--detach", head])
    patch = os.path.join(src, "patch.diff")
    if demo is None:
        cands = [f for f in os.listdir(src) if f.endswith(".rs") or f.endswith(".py") or f.endswith(".sh")]
        demo = cands[0] if cands else None
    ran = []
    log = {}
    # 1. with the change: applies, builds, existing suite passes
    rc, out = sh(["git", "apply", patch])
    ran.append(f"git apply patch.diff -> rc {rc}")
    if rc != 0:
        print("REJECT: patch does not apply:\n" + out)
        return 1
    rc, out = sh("cargo build --workspace --offline 2>&1 | tail -3")
    rc2, out2 = sh("cargo test --workspace --offline 2>&1")
    passed = sum(int(x) for x in re.findall(r"test result: ok\. (\d+) passed", out2))
    failed = sum(int(x) for x in re.findall(r"(\d+) failed", out2))
    ran.append(f"cargo test --workspace --offline (with change) -> rc {rc2}, {passed} passed, {failed} failed")
    if rc2 != 0 or passed < 34:
        print(f"REJECT: existing suite does not pass with the change ({passed} passed, rc {rc2})\n" + out2[-1500:])
        sh(["git", "checkout", "--", "."])
        return 1
    # 2. demo with the change
    if demo_cmd:
        cmd = "cargo build --workspace --offline >/dev/null 2>&1 && " + demo_cmd.replace("{demo}", os.path.join(src, demo)).replace("{wt}", WT) + " 2>&1"
    else:
        os.makedirs(WT + "/ipp/tests", exist_ok=True)
        shutil.copy(os.path.join(src, demo), WT + "/ipp/tests/seed_demo.rs")
        cmd = f"cargo test -p ipp --offline --test seed_demo {cargo_args} 2>&1"
    rc_with, out_with = sh(cmd)
    ran.append(f"{cmd} (with change) -> rc {rc_with}")
    # 3. demo without the change
    sh(["git", "checkout", "--", "."])
    rc_wo, out_wo = sh(cmd)
    ran.append(f"{cmd} (without change) -> rc {rc_wo}")
    shutil.rmtree(WT + "/ipp/tests", ignore_errors=True)
    if rc_with == 0 or (not demo_cmd and "test result: FAILED" not in out_with and "panicked" not in out_with and "error" not in out_with):
        print("REJECT: the demonstration does not fail with the change\n" + out_with[-1500:])
        return 1
    if "could not compile" in out_with:
        print("REJECT: the demonstration does not compile with the change\n" + out_with[-2500:])
        return 1
    if rc_wo != 0:
        print("REJECT: the demonstration does not pass without the change\n" + out_wo[-2500:])
        return 1
    dest = os.path.join("/verif/seeded", name)
    os.makedirs(dest, exist_ok=True)
    shutil.copy(patch, os.path.join(dest, "patch.diff"))
    shutil.copy(os.path.join(src, demo), os.path.join(dest, "demo.rs" if demo.endswith(".rs") else demo))
    if os.path.exists(os.path.join(src, "notes.md")):
        shutil.copy(os.path.join(src, "notes.md"), os.path.join(dest, "author_notes.md"))
    fails = re.findall(r"test (\S+) \.\.\. FAILED", out_with)
    meta = {
        "property": prop,
        "checks": [prop],
        "breaks": "see author_notes.md",
        "needs_to_manifest": needs,
        "repo_head": head[:7],
        "confirmed": {"existing_suite_with_change": f"{passed} passed", "demo_with_change": f"FAILED ({', '.join(fails[:6])})", "demo_without_change": "passed"},
        "demo_how": (f"copy demo.rs to ipp/tests/seed_demo.rs; " if not demo_cmd else "") + cmd.replace(' 2>&1', ''),
        "ran": ran,
        "origin": "independent sub-agent given only the property text and a scratch worktree",
    }
    json.dump(meta, open(os.path.join(dest, "meta.json"), "w"), indent=1)
    print(f"KEPT {name}: suite {passed} passed with change; demo fails with ({len(fails)} tests), passes without")
    return 0


if __name__ == "__main__":
    sys.exit(main())
