#!/usr/bin/env python3
"""False-alarm validation: apply each property-PRESERVING change (preserving/<id>/patch.diff), run the quick check of its
property (plus, optionally, further checks), expect exit 0 and no VIOLATION line, undo the change.

  selftest/run_preserving.py --sandbox DIR [--dir /verif/preserving] [--also C01,C03] [--only C05]

SILENT = every check exit 0; ALARM = a check printed VIOLATION / exit 1 (to be analysed: the change really breaks the
property -> discard the change; the check demands too much -> correct the check); INCONCLUSIVE = exit 2 (e.g. the harness
no longer compiles against the changed library: also to be corrected)."""
import json
import os
import subprocess
import sys
import time

HERE = os.path.dirname(os.path.abspath(__file__))
VERIF = os.path.dirname(HERE)
sys.path.insert(0, HERE)
from run import setup_sandbox, sh  # noqa: E402


def main():
    a = sys.argv[1:]
    sandbox, d, also, only = None, os.path.join(VERIF, "preserving"), [], None
    i = 0
    while i < len(a):
        if a[i] == "--sandbox":
            sandbox = a[i + 1]
        elif a[i] == "--dir":
            d = a[i + 1]
        elif a[i] == "--also":
            also = a[i + 1].split(",")
        elif a[i] == "--only":
            only = a[i + 1].split(",")
        i += 2
    repo, verif = setup_sandbox(sandbox)
    env = dict(os.environ, VERIF_REPO=repo, CARGO_NET_OFFLINE="true")
    results = []
    bad = 0
    for name in sorted(os.listdir(d)):
        meta = os.path.join(d, name, "meta.json")
        if not os.path.exists(meta):
            continue
        if only and not any(name.startswith(o) for o in only):
            continue
        mj = json.load(open(meta))
        checks = [mj["property"]] + [c for c in mj.get("also", []) + also if c != mj["property"]]
        t0 = time.time()
        entry = {"change": name, "checks": {}, "status": "SILENT"}
        try:
            rc, out = sh(["git", "-C", repo, "apply", os.path.join(d, name, "patch.diff")])
            if rc != 0:
                raise RuntimeError("patch does not apply: " + out)
            for c in checks:
                rc, out = sh([os.path.join(verif, "check"), c, "--tier", "quick"], cwd=verif, env=env, timeout=7200)
                viol = [l for l in out.splitlines() if l.startswith("VIOLATION ")]
                entry["checks"][c] = {"exit": rc, "violations": len(viol), "tail": out.splitlines()[-3:]}
                if rc == 1 or viol:
                    entry["status"] = "ALARM"
                    import re
                    entry["checks"][c]["signatures"] = sorted(set(re.findall(r"signature: (\S+)", out)))[:8]
                elif rc != 0 and entry["status"] == "SILENT":
                    entry["status"] = "INCONCLUSIVE"
        except Exception as e:
            entry["status"] = "ERROR"
            entry["error"] = str(e)[:500]
        finally:
            sh(["git", "-C", repo, "checkout", "--", "."])
            sh(["git", "-C", repo, "clean", "-fdq", "-e", "target"])
        entry["seconds"] = round(time.time() - t0, 1)
        if entry["status"] != "SILENT":
            bad += 1
        print(f"{entry['status']:12} {name:28} " + " ".join(f"{c}:rc{v['exit']}" for c, v in entry["checks"].items()) + f" ({entry['seconds']}s)", flush=True)
        results.append(entry)
    out = os.path.join(VERIF, "selftest", "results", time.strftime("preserving-%Y%m%d-%H%M%S.json"))
    json.dump({"results": results}, open(out, "w"), indent=1)
    print("results:", out)
    sys.exit(1 if bad else 0)


if __name__ == "__main__":
    main()
