#!/usr/bin/env python3
"""Self-validation of the monitors: apply each property-breaking change, run the
quick check(s) that should notice, expect exit 1 + a VIOLATION line, undo the change.

  selftest/run.py (--sandbox DIR | --in-place) [--only m01,m17] [--with-tests] [--patches DIR] [--match r4seed] [--no-mutants] [--seeds 1,2,3]

Without --sandbox the change is applied to /repo itself (git -C /repo checkout -- . afterwards;
/repo must be clean). With --sandbox DIR a scratch git worktree of /repo (DIR/repo) and a copy of
/verif with rewritten paths (DIR/verif) are used, so /repo and /verif stay untouched and usable;
remove DIR (and `git -C /repo worktree prune`) when done.
"""
import json
import os
import re
import shutil
import subprocess
import sys
import time

HERE = os.path.dirname(os.path.abspath(__file__))
VERIF = os.path.dirname(HERE)
sys.path.insert(0, HERE)
from mutants import MUTANTS  # noqa: E402


def sh(cmd, cwd=None, env=None, timeout=None):
    p = subprocess.run(cmd, cwd=cwd, env=env, stdout=subprocess.PIPE, stderr=subprocess.STDOUT, text=True, timeout=timeout)
    return p.returncode, p.stdout


def setup_sandbox(d):
    repo = os.path.join(d, "repo")
    verif = os.path.join(d, "verif")
    os.makedirs(d, exist_ok=True)
    if not os.path.exists(repo):
        rc, out = sh(["git", "-C", "/repo", "worktree", "add", "--detach", repo, "HEAD"])
        assert rc == 0, out
    else:
        sh(["git", "-C", repo, "checkout", "--", "."])
        sh(["git", "-C", repo, "checkout", "--detach", subprocess.check_output(["git", "-C", "/repo", "rev-parse", "HEAD"], text=True).strip()])
    os.makedirs(verif, exist_ok=True)
    rc, out = sh(["rsync", "-a", "--delete", "--exclude", "target", "--exclude", ".git", "--exclude", "work", "--exclude", "replays", "--exclude", "evidence",
                  "--exclude", "seeded", VERIF + "/", verif + "/"])
    assert rc == 0, out
    for root, _, files in os.walk(os.path.join(verif, "harness")):
        if "/target" in root:
            continue
        for f in files:
            if f == "Cargo.toml":
                p = os.path.join(root, f)
                s = open(p).read().replace('path = "/repo/ipp"', f'path = "{repo}/ipp"')
                open(p, "w").write(s)
    return repo, verif


def apply_edits(repo, edits):
    for f, old, new in edits:
        p = os.path.join(repo, f)
        s = open(p).read()
        n = s.count(old)
        if n != 1:
            raise RuntimeError(f"{f}: expected exactly one occurrence of the anchor, found {n}:\n{old[:200]}")
        open(p, "w").write(s.replace(old, new))


def main():
    args = sys.argv[1:]
    sandbox = None
    only = None
    with_tests = False
    patch_dir = None
    seeds = ["1"]
    match = None
    no_mutants = False
    in_place = False
    i = 0
    while i < len(args):
        if args[i] == "--sandbox":
            sandbox = args[i + 1]
            i += 2
        elif args[i] == "--only":
            only = args[i + 1].split(",")
            i += 2
        elif args[i] == "--with-tests":
            with_tests = True
            i += 1
        elif args[i] == "--patches":
            patch_dir = args[i + 1]
            i += 2
        elif args[i] == "--match":
            match = args[i + 1]
            i += 2
        elif args[i] == "--no-mutants":
            no_mutants = True
            i += 1
        elif args[i] == "--seeds":
            seeds = args[i + 1].split(",")
            i += 2
        elif args[i] == "--in-place":
            in_place = True
            i += 1
        else:
            # unknown arguments (including --help) never start a run: without --sandbox a run edits /repo itself
            print(__doc__)
            sys.exit(2)
    if sandbox:
        repo, verif = setup_sandbox(sandbox)
    else:
        if not in_place:
            print("refusing: pass --sandbox DIR, or --in-place to apply the changes to /repo itself")
            sys.exit(2)
        repo, verif = "/repo", VERIF
        rc, out = sh(["git", "-C", repo, "status", "--porcelain"])
        if out.strip():
            print("refusing: /repo has uncommitted changes")
            sys.exit(2)
    env = dict(os.environ, VERIF_REPO=repo, CARGO_NET_OFFLINE="true")
    results = []
    todo = []
    for m in ([] if no_mutants else MUTANTS):
        name, checks = m[0], m[1]
        edits = m[2] if isinstance(m[2], list) else [(m[2], m[3], m[4])]
        if only and not any(name.startswith(o) for o in only):
            continue
        todo.append((name, checks, edits))
    if patch_dir:
        for f in sorted(os.listdir(patch_dir)):
            meta = os.path.join(patch_dir, f, "meta.json")
            if os.path.exists(meta):
                mj = json.load(open(meta))
                if only and not any(f.startswith(o) for o in only):
                    continue
                if match and match not in f:
                    continue
                if mj.get("outside_quantifier"):
                    print(f"SKIPPED  {f:48} outside the property's quantifier: {mj.get('note', '')[:100]}", flush=True)
                    continue
                todo.append((f, mj.get("checks", [mj.get("property")]), os.path.join(patch_dir, f, "patch.diff")))
    ok_all = True
    for name, checks, edits in todo:
        t0 = time.time()
        entry = {"mutant": name, "expected": checks, "caught_by": [], "missed_by": [], "notes": []}
        try:
            if isinstance(edits, str):
                rc, out = sh(["git", "-C", repo, "apply", edits])
                if rc != 0:
                    raise RuntimeError(f"patch does not apply: {out}")
            else:
                apply_edits(repo, edits)
            if with_tests:
                rc, out = sh(["cargo", "test", "--workspace", "--offline"], cwd=repo, env=dict(env, CARGO_TARGET_DIR=os.path.join(os.path.dirname(repo) if sandbox else "/tmp", "selftest-target")), timeout=3600)
                passed = sum(int(x) for x in re.findall(r"test result: ok\. (\d+) passed", out))
                entry["repo_tests"] = "pass" if rc == 0 else "FAIL"
                entry["repo_tests_passed"] = passed
                if rc != 0:
                    entry["notes"].append("the repository's own tests fail with this change (not a realistic mutant)")
            for c in checks:
                for sd in seeds:
                    rc, out = sh([os.path.join(verif, "check"), c, "--tier", "quick"], cwd=verif, env=dict(env, VERIF_SEED=sd), timeout=7200)
                    viol = [l for l in out.splitlines() if l.startswith("VIOLATION ")]
                    sigs = sorted(set(re.findall(r"signature: (\S+)", out)))
                    tagc = c if len(seeds) == 1 else f"{c}@seed{sd}"
                    if rc == 1 and viol:
                        entry["caught_by"].append({"check": tagc, "violations": len(viol), "signatures": sigs[:6]})
                    else:
                        entry["missed_by"].append({"check": tagc, "exit": rc, "tail": out.splitlines()[-4:]})
        except Exception as e:  # harness problem: report, never count as caught
            entry["notes"].append(f"error: {e}")
        finally:
            sh(["git", "-C", repo, "checkout", "--", "."])
        entry["seconds"] = round(time.time() - t0, 1)
        status = "CAUGHT" if entry["caught_by"] and not entry["missed_by"] and not any(n.startswith("error") for n in entry["notes"]) else ("PARTIAL" if entry["caught_by"] else "MISSED")
        entry["status"] = status
        if status != "CAUGHT":
            ok_all = False
        print(f"{status:8} {name:48} caught_by={[c['check'] for c in entry['caught_by']]} missed_by={[c['check'] for c in entry['missed_by']]} {entry['notes']} ({entry['seconds']}s)", flush=True)
        results.append(entry)
    os.makedirs(os.path.join(VERIF, "selftest", "results"), exist_ok=True)
    out = os.path.join(VERIF, "selftest", "results", time.strftime("run-%Y%m%d-%H%M%S.json"))
    json.dump({"repo_head": subprocess.check_output(["git", "-C", "/repo", "rev-parse", "--short", "HEAD"], text=True).strip(), "results": results}, open(out, "w"), indent=1)
    print("results:", out)
    sys.exit(0 if ok_all else 1)


if __name__ == "__main__":
    main()
