"""Property-breaking changes used to validate the monitors (each compiles; see run.py).

(name, [checks expected to fire], file, old, new[, note])  -- `old` must occur exactly once in `file`.
A mutant with several edits uses a list of (file, old, new) triples in place of file/old/new.
"""

V = "ipp/src/value.rs"
P = "ipp/src/parser.rs"
R = "ipp/src/reader.rs"
A = "ipp/src/attribute.rs"
RQ = "ipp/src/request.rs"
PL = "ipp/src/payload.rs"
M = "ipp/src/model.rs"
U = "ipp/src/util.rs"
C = "ipp/src/client.rs"
O = "ipp/src/operation.rs"
B = "ipp/src/operation/builder.rs"
L = "ipp/src/lib.rs"
UM = "util/src/main.rs"

MUTANTS = [
    # ---- C01 / C03 (encoder)
    ("m01-separator-tag-of-first-element", ["C01", "C03"], V,
     "buffer.put_u8(list[i + 1].to_tag());", "buffer.put_u8(self.to_tag());"),
    ("m02-name-length-as-u8", ["C01", "C03"], A,
     "buffer.put_u16(self.name.len() as u16);", "buffer.put_u16(self.name.len() as u8 as u16);"),
    ("m03-range-min-max-swapped-in-encoder", ["C01", "C03"], V,
     "buffer.put_i32(min);\n                buffer.put_i32(max);", "buffer.put_i32(max);\n                buffer.put_i32(min);"),
    ("m04-symmetric-tag-constants-swapped", ["C03", "C04", "C16"],
     [(M, "Resolution = 0x32,", "Resolution = 0x33,"), (M, "RangeOfInteger = 0x33,", "RangeOfInteger = 0x32,")]),
    ("m05-symmetric-resolution-units-first", ["C03", "C04"],
     [(V, "buffer.put_i32(cross_feed);\n                buffer.put_i32(feed);\n                buffer.put_u8(units as u8);",
       "buffer.put_u8(units as u8);\n                buffer.put_i32(cross_feed);\n                buffer.put_i32(feed);"),
      (V, "            ValueTag::Resolution => IppValue::Resolution {\n                cross_feed: data.get_i32(),\n                feed: data.get_i32(),\n                units: data.get_i8(),\n            },",
       "            ValueTag::Resolution => {\n                let units = data.get_i8();\n                IppValue::Resolution {\n                    cross_feed: data.get_i32(),\n                    feed: data.get_i32(),\n                    units,\n                }\n            }")]),
    ("m06-payload-dropped-from-into_read", ["C01", "C08", "C11", "C18"], RQ,
     "\n        io::Cursor::new(header).chain(self.payload)", "\n        io::Cursor::new(header).chain(IppPayload::empty())"),
    ("m07-end-collection-2-byte-trailer", ["C01", "C03"], V,
     "buffer.put_u8(ValueTag::EndCollection as u8);\n                buffer.put_u32(0);", "buffer.put_u8(ValueTag::EndCollection as u8);\n                buffer.put_u16(0);"),
    ("m08-second-operation-group-dropped", ["C01"], A,
     ".filter(|(idx, _)| Some(*idx) != first_operation_group)", ".filter(|(_, group)| group.tag() != DelimiterTag::OperationAttributes || first_operation_group.is_none())"),
    # ---- C02
    ("m09-boolean-length-check-removed", ["C02"], V,
     "            ValueTag::Boolean => check_len(&data, 1)?,\n", ""),
    ("m10-unwrap-on-empty-context", ["C02"], P,
     "                if let Some(val_list) = self.context.last_mut() {\n                    // each member name",
     "                let val_list = self.context.last_mut().unwrap();\n                {\n                    // each member name"),
    ("m11-withlang-inner-length-unchecked", ["C02"], V,
     "    let len = data.get_u16() as usize;\n    check_len(data, len)?;", "    let len = data.get_u16() as usize;"),
    # ---- C04
    ("m12-last-attribute-of-group-lost", ["C01", "C04"], P,
     "        let tag = DelimiterTag::from_u8(tag).ok_or(IppParseError::InvalidTag(tag))?;\n\n        self.add_last_attribute();\n",
     "        let tag = DelimiterTag::from_u8(tag).ok_or(IppParseError::InvalidTag(tag))?;\n\n        if tag != DelimiterTag::UnsupportedAttributes {\n            self.add_last_attribute();\n        }\n"),
    ("m13-strict-utf8-keyword", ["C04"], V,
     "ValueTag::Keyword => IppValue::Keyword(String::from_utf8_lossy(&data).into_owned()),",
     "ValueTag::Keyword => IppValue::Keyword(\n                String::from_utf8(data.to_vec()).map_err(|e| io::Error::new(io::ErrorKind::InvalidData, e))?,\n            ),"),
    ("m14-bad-tag-skipped-blocking", ["C04", "C05"], P,
     "                tag @ 0x10..=0x4a => self.parse_value(tag)?,\n                tag => {\n                    return Err(IppParseError::InvalidTag(tag));\n                }",
     "                tag @ 0x10..=0x4a => self.parse_value(tag)?,\n                0x00 | 0x06..=0x0f => {}\n                tag => {\n                    return Err(IppParseError::InvalidTag(tag));\n                }"),
    ("m15-empty-groups-dropped", ["C04", "C01"], P,
     "        if let Some(group) = self.current_group.take() {\n            self.attributes.groups_mut().push(group);\n        }",
     "        if let Some(group) = self.current_group.take() {\n            if !group.attributes().is_empty() {\n                self.attributes.groups_mut().push(group);\n            }\n        }"),
    ("m16-member-values-paired-by-position", ["C01", "C04"], P,
     "                            value => {\n                                if let Some((_, ref mut values)) = member {\n                                    values.push(value);\n                                }\n                            }",
     "                            value => {\n                                if let Some((_, ref mut values)) = member {\n                                    if values.is_empty() {\n                                        values.push(value);\n                                    }\n                                }\n                            }"),
    # ---- C05 (one side only)
    ("m17-async-value-tag-range-short", ["C05", "C01"], P,
     "                tag @ 0x10..=0x4a => self.parse_value(tag).await?,", "                tag @ 0x10..=0x49 => self.parse_value(tag).await?,"),
    ("m18-async-read-instead-of-read_exact", ["C05", "C06"], R,
     "        let mut buf = vec![0; len];\n        self.inner.read_exact(&mut buf).await?;",
     "        let mut buf = vec![0; len];\n        let n = self.inner.read(&mut buf).await?;\n        if n == 0 && len > 0 {\n            return Err(io::ErrorKind::UnexpectedEof.into());\n        }"),
    # ---- C06
    ("m19-reads-one-tag-ahead-after-end", ["C06", "C01"], P,
     "                tag @ 0x01..=0x05 => {\n                    if self.state.parse_delimiter(tag)? == DelimiterTag::EndOfAttributes {\n                        break;\n                    }\n                }\n                tag @ 0x10..=0x4a => self.parse_value(tag)?,",
     "                tag @ 0x01..=0x05 => {\n                    if self.state.parse_delimiter(tag)? == DelimiterTag::EndOfAttributes {\n                        let _ = self.reader.read_tag();\n                        break;\n                    }\n                }\n                tag @ 0x10..=0x4a => self.parse_value(tag)?,"),
    # ---- C07
    ("m20-eof-at-tag-position-ends-attributes", ["C07", "C05"], R,
     "    fn read_u8(&mut self) -> io::Result<u8> {\n        let mut buf = [0u8; 1];\n        self.inner.read_exact(&mut buf)?;\n        Ok(buf[0])\n    }\n\n    fn read_u32",
     "    fn read_u8(&mut self) -> io::Result<u8> {\n        let mut buf = [0u8; 1];\n        if self.inner.read_exact(&mut buf).is_err() {\n            return Ok(3);\n        }\n        Ok(buf[0])\n    }\n\n    fn read_u32"),
    ("m21-io-errors-wrapped-in-other", ["C07", "C05"], R,
     "        let mut buf = vec![0; len];\n        self.inner.read_exact(&mut buf)?;\n        Ok(buf.into())\n    }\n\n    fn read_string",
     "        let mut buf = vec![0; len];\n        self.inner\n            .read_exact(&mut buf)\n            .map_err(|e| io::Error::new(io::ErrorKind::Other, e))?;\n        Ok(buf.into())\n    }\n\n    fn read_string"),
    # ---- C08
    ("m22-sync-payload-empty-through-async", ["C08"], PL,
     "PayloadKind::Sync(ref mut inner) => Pin::new(&mut AllowStdIo::new(inner)).poll_read(cx, buf),",
     "PayloadKind::Sync(ref mut inner) => {\n                let _ = inner;\n                Poll::Ready(Ok(0))\n            }"),
    ("m23-async-payload-short-through-blocking", ["C08"], PL,
     "PayloadKind::Async(ref mut inner) => futures_executor::block_on(inner.read(buf)),",
     "PayloadKind::Async(ref mut inner) => {\n                let n = buf.len().min(4096);\n                futures_executor::block_on(inner.read(&mut buf[..n])).map(|k| if k == n && n == 4096 { k - 1 } else { k })\n            }"),
    # ---- C09
    ("m24-job-id-not-in-header-list", ["C09"], A,
     "    const HEADER_ATTRS: [&'static str; 5] = [\n        IppAttribute::ATTRIBUTES_CHARSET,\n        IppAttribute::ATTRIBUTES_NATURAL_LANGUAGE,\n        IppAttribute::PRINTER_URI,\n        IppAttribute::JOB_URI,\n        IppAttribute::JOB_ID,\n    ];",
     "    const HEADER_ATTRS: [&'static str; 4] = [\n        IppAttribute::ATTRIBUTES_CHARSET,\n        IppAttribute::ATTRIBUTES_NATURAL_LANGUAGE,\n        IppAttribute::PRINTER_URI,\n        IppAttribute::JOB_URI,\n    ];"),
    ("m25-header-attrs-in-map-order", ["C09"], A,
     "            for hdr in &IppAttribute::HEADER_ATTRS {\n                if let Some(attr) = group.attributes().get(*hdr) {\n                    buffer.put(attr.to_bytes());\n                }\n            }",
     "            for attr in group.attributes().values() {\n                if is_header_attr(attr.name()) {\n                    buffer.put(attr.to_bytes());\n                }\n            }"),
    # ---- C10
    ("m26-cancel-job-wrong-operation", ["C10"], O,
     "IppRequestResponse::new(self.version(), Operation::CancelJob, Some(self.printer_uri));", "IppRequestResponse::new(self.version(), Operation::PurgeJobs, Some(self.printer_uri));"),
    ("m27-user-name-as-keyword", ["C10", "C18"], O,
     "                IppValue::NameWithoutLanguage(user_name),\n            ),\n        );\n    }\n}\n\n/// Trait which", "                IppValue::Keyword(user_name),\n            ),\n        );\n    }\n}\n\n/// Trait which"),
    ("m28-last-document-inverted", ["C10"], B, "        self.is_last = last;", "        self.is_last = !last;"),
    ("m29-user-name-first-wins", ["C10"], B,
     "    pub fn user_name<S>(mut self, user_name: S) -> Self\n    where\n        S: AsRef<str>,\n    {\n        self.user_name = Some(user_name.as_ref().to_owned());\n        self\n    }\n\n    /// Specify job-name attribute\n    pub fn job_title",
     "    pub fn user_name<S>(mut self, user_name: S) -> Self\n    where\n        S: AsRef<str>,\n    {\n        self.user_name.get_or_insert(user_name.as_ref().to_owned());\n        self\n    }\n\n    /// Specify job-name attribute\n    pub fn job_title"),
    ("m30-job-name-in-job-group", ["C10"], O,
     "        if let Some(job_name) = self.job_name {\n            retval.attributes_mut().add(\n                DelimiterTag::OperationAttributes,\n                IppAttribute::new(IppAttribute::JOB_NAME, IppValue::NameWithoutLanguage(job_name)),\n            )\n        }\n\n        for attr in self.attributes {\n            retval.attributes_mut().add(DelimiterTag::JobAttributes, attr);\n        }\n        retval\n    }",
     "        if let Some(job_name) = self.job_name {\n            retval.attributes_mut().add(\n                DelimiterTag::JobAttributes,\n                IppAttribute::new(IppAttribute::JOB_NAME, IppValue::NameWithoutLanguage(job_name)),\n            )\n        }\n\n        for attr in self.attributes {\n            retval.attributes_mut().add(DelimiterTag::JobAttributes, attr);\n        }\n        retval\n    }"),
    # ---- C11
    ("m31-async-http-status-not-checked", ["C11"], C,
     "            if response.status().is_success() {", "            if response.status().is_success() || response.status().is_client_error() {"),
    ("m32-blocking-custom-headers-dropped", ["C11", "C18"], C,
     "            for (k, v) in &self.0.headers {\n                req = req.set(k, v);\n            }", "            for (k, v) in self.0.headers.iter().take(1) {\n                req = req.set(k, v);\n            }"),
    # ---- C12
    ("m33-native-blocking-cert-check-inverted", ["C12"], C,
     ".danger_accept_invalid_certs(self.0.ignore_tls_errors);", ".danger_accept_invalid_certs(!self.0.ignore_tls_errors);"),
    ("m34-rustls-blocking-noverifier-always", ["C12"], C,
     "                let config = if self.0.ignore_tls_errors {", "                let config = if self.0.ignore_tls_errors || self.0.ca_certs.is_empty() {"),
    ("m35-async-roots-not-added", ["C12"], C,
     "                    builder = builder.add_root_certificate(cert);", "                    let _ = cert;"),
    ("m36-async-hostname-check-off", ["C12"], C,
     "                if self.0.ignore_tls_errors {\n                    builder = builder\n                        .danger_accept_invalid_hostnames(true)\n                        .danger_accept_invalid_certs(true);\n                }",
     "                builder = builder.danger_accept_invalid_hostnames(true);\n                if self.0.ignore_tls_errors {\n                    builder = builder.danger_accept_invalid_certs(true);\n                }"),
    ("m37-async-rustls-der-root-ignored", ["C12"], C,
     "                    let cert = if is_pem {\n                        reqwest::Certificate::from_pem(data)\n                    } else {\n                        reqwest::Certificate::from_der(data)\n                    }?;",
     "                    let _ = is_pem;\n                    let cert =\n                        reqwest::Certificate::from_pem(data).or_else(|_| reqwest::Certificate::from_der(data))?;"),
    # ---- C13
    ("m38-printer-uri-keeps-query", ["C13", "C10"], U,
     ".path_and_query(uri.path());", ".path_and_query(uri.path_and_query().map(|p| p.as_str()).unwrap_or(\"/\"));"),
    ("m39-printer-uri-drops-port-for-ipv6", ["C13"], U,
     "        if let Some(port) = authority.port_u16() {", "        if let Some(port) = authority.port_u16().filter(|_| !authority.host().starts_with('[')) {"),
    ("m40-printer-uri-keeps-userinfo-without-port", ["C13", "C10"], U,
     "            builder = builder.authority(authority.host());", "            builder = builder.authority(authority.as_str());"),
    # ---- C14
    ("m41-query-dropped-with-explicit-port", ["C14", "C11"], C,
     "    let path_and_query = uri.path_and_query().map(|p| p.as_str()).unwrap_or_default();",
     "    let path_and_query = if uri.port_u16().is_some() {\n        uri.path()\n    } else {\n        uri.path_and_query().map(|p| p.as_str()).unwrap_or_default()\n    };"),
    ("m42-default-port-inside-ipv6-brackets", ["C14"], C,
     "                format!(\"{}:{}\", authority, default_port)", "                format!(\"{}:{}\", authority.as_str().trim_end_matches(']'), default_port) + if authority.as_str().ends_with(']') { \"]\" } else { \"\" }"),
    # ---- C15
    ("m43-member-values-cloned-again", ["C15"], P,
     "                    if let Some((k, values)) = member {\n                        if !values.is_empty() {\n                            map.insert(k, list_or_value(values));\n                        }\n                    }",
     "                    if let Some((k, values)) = member {\n                        if !values.is_empty() {\n                            map.insert(k, list_or_value(values.clone()));\n                        }\n                    }"),
    ("m44-linear-scan-per-attribute", ["C15"], P,
     "                if let Some(ref mut group) = self.current_group {\n                    let attr",
     "                if let Some(ref mut group) = self.current_group {\n                    if group.attributes().values().any(|a| a.name() == last_name) {\n                        trace!(\"duplicate attribute {}\", last_name);\n                    }\n                    let attr"),
    # ---- C16
    ("m45-status-discriminants-swapped", ["C16"],
     [(M, "ClientErrorDocumentFormatNotSupported = 0x040A,", "ClientErrorDocumentFormatNotSupported = 0x0410,"), (M, "ClientErrorCompressionError = 0x0410,", "ClientErrorCompressionError = 0x040A,")]),
    ("m46-finishings-values-swapped", ["C16"],
     [(M, "StapleTopLeft = 20,", "StapleTopLeft = 21,"), (M, "StapleBottomLeft = 21,", "StapleBottomLeft = 20,")]),
    ("m47-unknown-client-errors-successful", ["C16", "C17"], M,
     "    pub fn is_success(&self) -> bool {\n        matches!(\n            self,\n            StatusCode::SuccessfulOk\n                | StatusCode::SuccessfulOkIgnoredOrSubstitutedAttributes\n                | StatusCode::SuccessfulOkConflictingAttributes\n        )\n    }",
     "    pub fn is_success(&self) -> bool {\n        matches!(\n            self,\n            StatusCode::SuccessfulOk\n                | StatusCode::SuccessfulOkIgnoredOrSubstitutedAttributes\n                | StatusCode::SuccessfulOkConflictingAttributes\n                | StatusCode::UnknownStatusCode\n        )\n    }"),
    # ---- C17
    ("m48-all-instead-of-any", ["C17"], U,
     "if keywords.iter().any(|k| ERROR_STATES.contains(&&k[..])) {", "if !keywords.is_empty() && keywords.iter().all(|k| ERROR_STATES.contains(&&k[..])) {"),
    ("m49-status-gate-removed", ["C17", "C18"], U,
     "    if !status.is_success() {\n        return Err(IppError::StatusError(status));\n    }\n\n    let state",
     "    if !status.is_success() && status != crate::model::StatusCode::ServerErrorBusy {\n        return Err(IppError::StatusError(status));\n    }\n\n    let state"),
    ("m50-only-first-reason-checked", ["C17"], U,
     "            .filter_map(|e| e.as_keyword())", "            .take(1)\n            .filter_map(|e| e.as_keyword())"),
    # ---- C18
    ("m51-options-split-at-last-equals", ["C18"], UM,
     "        if let Some((k, v)) = arg.split_once('=') {\n            builder = builder.attribute(", "        if let Some((k, v)) = arg.rsplit_once('=') {\n            builder = builder.attribute("),
    ("m52-file-truncated-at-256k", ["C18"], UM,
     "IppPayload::new(BufReader::new(fs::File::open(filename)?))", "IppPayload::new(io::Read::take(BufReader::new(fs::File::open(filename)?), 262_144))"),
    ("m53-state-check-ignores-reasons-for-processing", ["C17", "C18"], U,
     "    if let Some(PrinterState::Stopped) = state {\n        return Ok(false);\n    }",
     "    if let Some(PrinterState::Stopped) = state {\n        return Ok(false);\n    }\n    if let Some(PrinterState::Processing) = state {\n        return Ok(true);\n    }"),
    # ---- C19
    ("m54-add-goes-to-last-matching-group", ["C19"], A,
     "let group = self.groups_mut().iter_mut().find(|g| g.tag() == tag);", "let group = self.groups_mut().iter_mut().rev().find(|g| g.tag() == tag);"),
    ("m55-collection-iterator-skips-first", ["C19"], V,
     "if let Some(entry) = map.iter().nth(self.index) {", "if let Some(entry) = map.iter().nth(self.index + usize::from(map.len() > 3)) {"),
    # ---- C20
    ("m56-serde-skips-utc-mins", ["C20"], V,
     "        utc_hours: u8,\n        utc_mins: u8,\n    },\n    MemberAttrName(String),", "        utc_hours: u8,\n        #[cfg_attr(feature = \"serde\", serde(skip))]\n        utc_mins: u8,\n    },\n    MemberAttrName(String),"),
    ("m57-serde-request-id-not-serialised", ["C20"], L,
     "    /// ID of the request\n    pub request_id: u32,", "    /// ID of the request\n    #[cfg_attr(feature = \"serde\", serde(skip_serializing, default))]\n    pub request_id: u32,"),
    # ---- C04 again: bytes a library may come to accept must still never be skipped (both parsers alike, so C05 is blind)
    ("m58-unassigned-value-tags-skipped-as-elements", ["C04"], [
        (P, "                tag @ 0x10..=0x4a => self.parse_value(tag)?,\n", "                tag @ 0x10..=0x4a => self.parse_value(tag)?,\n                0x4b..=0x7f => {\n                    let _ = self.reader.read_name()?;\n                    let _ = self.reader.read_value()?;\n                }\n"),
        (P, "                tag @ 0x10..=0x4a => self.parse_value(tag).await?,\n", "                tag @ 0x10..=0x4a => self.parse_value(tag).await?,\n                0x4b..=0x7f => {\n                    let _ = self.reader.read_name().await?;\n                    let _ = self.reader.read_value().await?;\n                }\n"),
    ]),
    ("m59-later-registered-delimiters-skipped", ["C04"], [
        (P, "                tag @ 0x10..=0x4a => self.parse_value(tag)?,\n", "                tag @ 0x10..=0x4a => self.parse_value(tag)?,\n                0x06..=0x0a => {}\n"),
        (P, "                tag @ 0x10..=0x4a => self.parse_value(tag).await?,\n", "                tag @ 0x10..=0x4a => self.parse_value(tag).await?,\n                0x06..=0x0a => {}\n"),
    ]),
]
