#!/usr/bin/env python3
"""Prepare one scratch worktree + TASK.md per property for a round of independently seeded
property-breaking changes (sub-agents get ONLY the property text, the worktree and the list of
ideas already used, never anything from /verif's machinery).

  selftest/mkseedtasks.py <round-dir> <round-number>
"""
import json
import os
import subprocess
import sys

ROOT = sys.argv[1]
ROUND = sys.argv[2]
KNOWN = {
"C01": ["separator tag of first set element", "name length as u8", "range min/max swapped", "end-collection 2-byte trailer", "second operation group dropped", "payload dropped from into_read", "header-named attributes dropped outside first operation group", "values after a nested collection in one member dropped", "last attribute of a group lost", "empty groups dropped", "Other 0x10/0x12 with empty data decoded as NoValue", "to_bytes cache not invalidated by header_mut", "case-variant of a header attribute name dropped", "collections nested 17+ levels flattened", "with-language inner length counted in chars", "attribute names ending in NUL trimmed"],
"C02": ["length check removed", "unwrap on empty collection stack", "with-language inner length unchecked", "context.len()-1 underflow", "list[0] on empty array", "async read loop spinning on EOF for lengths >= 0x8000", "string slice at non-char boundary when clamping to 65535", "single double-quote value indexes past the end", "C1 control characters panic in Display", "resolution units indexed into a small table in Display", "recursive decoding of extension tag 0x7f"],
"C03": ["tag constants swapped symmetrically", "resolution units-first on both sides", "with-language value-first on both sides", "delimiter omitted between same-tag groups", "job-id lost when printer-uri+job-uri+job-id all present", "member whose value is an empty collection skipped", "adjacent Other values with different tags share a tag", "DateTime direction normalised when offset is zero", "header-named attributes dropped from non-operation groups", "range bounds packed through a sign-extending u64"],
"C04": ["member values paired by position", "strict UTF-8 for keyword / with-language", "bad tag skipped", "empty groups dropped", "operation group moved before other groups", "with-language with empty language decoded as without-language", "integer+range sets merged", "trailing NUL trimmed from text", "adjacent equal values de-duplicated", "lossy UTF-8 decoding resuming one byte at a time"],
"C05": ["async tag range short", "async read vs read_exact", "async header with single read", "take(len).read_to_end", "async fixed-width read loses progress on Pending", "async lengths as signed i16", "different error when the stream ends right behind a rejected value", "endCollection with a name handled differently", "async attribute names decoded strictly", "async rejects an additional value with nothing to continue"],
"C06": ["tag read ahead after end", "no retry on Interrupted (blocking bodies)", "async progress reset on Pending", "async payload via blocking Read: Pending -> WouldBlock", "blocking value > 4096 appends requested instead of received count", "Interrupted after the end tag surfaces through AsyncRead", "length exactly 32767 reads one byte too many", "header fetched with a single read()", "1 MiB Take guard leaking into the payload"],
"C07": ["EOF at tag position = end", "errors wrapped in Other", "transient WouldBlock/TimedOut retried", "EOF at attribute boundary accepted", "unwrap_or_default on out-of-band value read", "panic slicing long name in error message", "resolution cut after 8 bytes zero-filled", "UnexpectedEof fault inside the header remapped", "header via unchecked take().read_to_end()", "large values guarded only by debug_assert"],
"C08": ["sync payload EOF via async", "async payload loses bytes via blocking", "payload Empty after zero-length read at seam", "no EINTR retry via async", "& instead of min at 64 KiB buffers", "header tail lost when first payload read is interrupted", "short fragment followed by Pending ends the stream", "empty group breaks the stream header", "every 64th poll drops the bytes read", "request-id 0 streamed as 1"],
"C09": ["job-id not in header list", "header attributes in map order", "add appends to last group only", "header attributes sorted by name", "case-insensitive header-name match", "job-id <= 0 not treated as header attribute", "long printer-uri cut at octet 1023", "sort key Option ordering puts header attributes last", "map_while stops at the first absent header attribute"],
"C10": ["wrong operation code", "user name as keyword", "last-document inverted", "first-wins", "job-name in job group", "first of repeated job attribute names kept", "authority cut at first @", "job-name truncated to 255 octets", "consecutive duplicate requested attributes removed", "requested-attributes [all] omitted", "port with leading zeros rewritten", "attributes() replaces instead of extends", "document-format etc. moved to the operation group"],
"C11": ["async accepts 4xx", "custom headers dropped", "payload dropped", "IPP body of HTTP error accepted (blocking)", "BufReader contents dropped before trailing data", "query dropped with explicit port", "URL-safe base64 credentials", "per-socket-op timeout instead of overall (blocking)", "close-delimited response cut at a tag position accepted", "payload-less request retried after a failure", "response header fetched with one read()", "Interrupted from a blocking payload source aborts the async POST"],
"C12": ["cert check inverted", "NoVerifier when no roots", "roots not added", "hostname check off", "DER root ignored (async rustls)", "config cache keyed without ignore flag", "hostname check off when verifying (native)", "roots accumulate in a process-wide store", "DER < 256 bytes mis-sniffed", "explicit ignore_tls_errors(false) treated as set", "5-minute expiry grace", "TLS set-up gated on ipps only (https forgotten)", "ca_cert() trims ASCII white space from DER"],
"C13": ["query kept", "port dropped for IPv6", "user-info kept without port", "cut at first @", "ipp fast path in constructor", "printer-uri clamped to 1023 octets", "trailing dot of host dropped", "host located by text search (found inside user-info)", "dot segments of the path resolved", "implicit :443 added for TLS targets", "ipps inferred from port 443"],
"C14": ["query dropped with explicit port", "default port inside IPv6 brackets", "textual port test", "authority lower-cased", "leading slashes collapsed", "port 0 treated as absent", "ipp with explicit 443 upgraded to https", "very long URIs truncated", "Host header without the port", "one-entry mapping cache with case-insensitive key"],
"C15": ["values cloned on collection close", "linear scan per attribute", "buffer per short read", "split_off per member", "quadratic re-validation of invalid UTF-8 names", "sorted-Vec insert per member", "capacity of a wide collection kept for later ones", "weak deterministic hasher (collision flooding)", "per-value recount of buffered values (depth-quadratic)", "eager tag list for a mixed-syntax warning (width-quadratic)"],
"C16": ["discriminants swapped", "UnknownStatusCode successful", "signed cast in is_success", "0x35/0x36 exchanged", "exclusive range drops 0x0002", "0x0003/0x0005 aliased in header path", "status masked for version < 1.1", "Other tag outside 0x10..0x7f emitted", "out-of-band tags collapsed into no-value", "CUPS 0x1000-0x1002 + class-digit is_success"],
"C17": ["all for any", "status gate weakened", "first reason only", "processing/idle short-circuit", "early exit on undecodable state", "binary search over mis-sorted list", "stopped checked before status gate", "printer group selected by position", "printer-is-accepting-jobs overrides paused", "only the first 16 reasons inspected", "single keyword reason not inspected", "scan stops at 'none'"],
"C18": ["split at last =", "file truncated", "metadata().len() for FIFOs", "numerals clamped into i32", "HTTP error with IPP body accepted", "state check weakened", "option named like a header attribute moved", "option values trimmed before typing", "error of the state query ignored (lost ?)", "-o a=1,b=2 split at commas"],
"C19": ["add to last matching group", "collection iterator off by one", "tail fast path in add", "iterator yields nothing for NoValue", "one-element set unwrapped in traversal", "charset/language write-once", "empty member name skipped in traversal", "groups_of skips empty groups", "new operation group inserted at index 0", "add prefers a later group that already has the name"],
"C20": ["serde(skip) on a field", "request_id not serialised", "rebuild through add() on deserialise", "skip_serializing_if without default", "keyword no-value collides with NoValue under rename+untagged", "flatten collides with attribute named tag", "Other data rendered as escaped text", "attribute names escaped by hand", "language tags lower-cased on deserialise", "IppVersion via borrowed &str (from_reader fails)"],
}
EXTRA = {
 "C11": "(Hint: demos can use a std::net::TcpListener on 127.0.0.1 as a fake HTTP server; blocking client = feature 'client', async = 'async-client' plus tokio from dev-dependencies.)",
 "C12": "(Hint: TLS features are client-tls / async-client-tls (native-tls) and client-rustls / async-client-rustls; the openssl CLI is installed for generating certificates.)",
 "C14": "(The mapping function is private; a cfg-guarded public wrapper ipp::client::verif_transport_url exists: RUSTFLAGS='--cfg ancwrd1_ipp_rs_verif' and feature 'client'. Port-less ipps -> 443 is already known. Stay within ports 1-65535 or absent.)",
 "C02": "(The stack overflow of clone/drop/display on ~1 MiB deeply nested collections is already known; do not re-create it.)",
 "C09": "(Stay within messages obtainable from the public constructors/builders plus IppAttributes::add calls; do not rely on groups_mut() reordering.)",
 "C18": "(A demo can be a python3 script running the built ipputil binary against a tiny local HTTP server.)",
 "C20": "(Enable with --features serde; serde_json 1.x is in Cargo.lock and can be added temporarily as a dev-dependency for the demo.)",
}
only = sys.argv[3].split(",") if len(sys.argv) > 3 else None
os.makedirs(ROOT, exist_ok=True)
for pid, ideas in KNOWN.items():
    if only and pid not in only:
        continue
    d = f"{ROOT}/{pid}"
    subprocess.run(["git", "-C", "/repo", "worktree", "add", "--detach", d, "HEAD"], stdout=subprocess.DEVNULL, stderr=subprocess.DEVNULL)
    for l in open(os.path.join(os.path.dirname(os.path.dirname(os.path.abspath(__file__))), "properties.jsonl")):
        p = json.loads(l)
        if p["id"] == pid:
            json.dump(p, open(d + "/PROPERTY.json", "w"), indent=1)
    extra = EXTRA.get(pid, "")
    task = f"""You are working in a scratch git worktree of the Rust project ancwrd1/ipp.rs (an IPP printing protocol library) at {d}. Work ONLY inside {d}. Do NOT read, list or modify /repo or /verif or other directories under {ROOT}.

The file {d}/PROPERTY.json contains ONE semantic property the library is supposed to satisfy. Read it (statement AND quantifier: stay inside the quantified domain), then the sources it refers to. {extra}

This is round {ROUND}. The following property-breaking changes are already known — do NOT repeat them or close variations:
""" + "\n".join(f"  - {i}" for i in ideas) + f"""

Task: produce TWO NEW, different, realistic code changes to the library sources (ipp/ or util/) — slips, "optimisations", clean-ups, refactorings, "hardening" or "compatibility" tweaks a maintainer could plausibly make and a reviewer could plausibly approve — each of which BREAKS this property (for inputs/configurations/schedules INSIDE its quantifier) while (a) still compiling (`CARGO_TARGET_DIR={d}/target cargo build --workspace --offline`) and (b) still passing the complete existing suite (`CARGO_TARGET_DIR={d}/target cargo test --workspace --offline`: 32 + 2 tests). Change 1 should be a regression of the kind that slips in while doing legitimate larger work on this code: implement (a realistic part of) a plausible feature, refactoring, dependency-API migration, performance improvement or robustness measure - e.g. a new configuration option, support for another value syntax or operation, a different internal data structure, buffering, caching, pooling, limits, logging, better error messages - and let it break the property as a side effect for a recognisable class of inputs. Change 2 should be HARD to notice: it needs something quite specific to manifest — a rare combination of inputs, an unusual but legal value (boundary lengths, extreme integers, empty strings, unusual characters, unusual tags), a particular order of operations or of map iteration, a particular read fragmentation / not-ready / interrupt pattern, a fault at a particular kind of position, a particular configuration or cargo-feature combination, state carried between two calls, or two cooperating edits that each look harmless — and leaves ordinary use and as many neighbouring cases as possible exactly as before. Think about code paths and clauses of the statement that none of the known changes touches.

For each change k in {{1,2}} create {d}/seeded/k/ with: patch.diff (`git diff` against HEAD, library sources only, applies with `git apply`); demo.rs (a Rust integration test file to copy into ipp/tests/, or a clearly named script) that FAILS with the change and PASSES without it, with exact run instructions; notes.md (which clause it breaks, what exactly it needs to manifest, which nearby cases still behave correctly, the commands you ran and their results). Actually run and confirm: build + existing tests with the change; demo failing with and passing without.

Rules: no network (cargo --offline, CARGO_TARGET_DIR={d}/target). Do not edit existing tests. At the end restore tracked files (`git checkout -- .`, remove copied test files) so only seeded/ and target/ remain untracked. At most ~30 minutes. Final message: a 5-line summary per change (what, where, what it needs to manifest, what stays correct, confirmation results).
"""
    open(d + "/TASK.md", "w").write(task)
    print(d)
