//! C20: with the serde feature, header and attributes survive serialise/deserialise (JSON carrier).

use ipp::prelude::*;
use ippref::Model;
use std::io::Read;
use vkit::gen::{self, G1Cfg};
use vkit::json::J;
use vkit::mirror;
use vkit::out::Report;
use vkit::rng::{hash64, Rng};
use vkit::util::{catch, panic_site, par, threads, Args};

fn case(shapes: &[Model], seed: u64, idx: u64) -> Model {
    if (idx as usize) < shapes.len() {
        return shapes[idx as usize].clone();
    }
    let mut r = Rng::fork(seed ^ 0xC20, idx);
    let cfg = G1Cfg { big: idx % 257 == 0, ..G1Cfg::default() };
    gen::gen_model(&mut r, &cfg)
}

pub const CARRIERS: [&str; 5] = ["to_string/from_str", "to_vec/from_slice", "to_writer/from_reader", "to_value/from_value", "to_string_pretty/from_str"];

/// one JSON round trip through the given serde_json entry points (borrowing and non-borrowing deserialisers, text and tree forms)
fn rt<T: serde::Serialize + serde::de::DeserializeOwned>(v: &T, carrier: usize) -> Result<(T, String), String> {
    let ser = |e: serde_json::Error| format!("serialise: {e} [{}]", CARRIERS[carrier]);
    match carrier {
        0 | 4 => {
            let s = if carrier == 0 { serde_json::to_string(v) } else { serde_json::to_string_pretty(v) }.map_err(ser)?;
            let back = serde_json::from_str(&s).map_err(|e| format!("deserialise: {e} [{}]; json head: {}", CARRIERS[carrier], s.chars().take(300).collect::<String>()))?;
            Ok((back, s))
        }
        1 => {
            let b = serde_json::to_vec(v).map_err(ser)?;
            let back = serde_json::from_slice(&b).map_err(|e| format!("deserialise: {e} [{}]", CARRIERS[carrier]))?;
            Ok((back, String::from_utf8_lossy(&b).into_owned()))
        }
        2 => {
            let mut b = vec![];
            serde_json::to_writer(&mut b, v).map_err(ser)?;
            let back = serde_json::from_reader(std::io::Cursor::new(&b)).map_err(|e| format!("deserialise: {e} [{}]; json head: {}", CARRIERS[carrier], String::from_utf8_lossy(&b).chars().take(300).collect::<String>()))?;
            Ok((back, String::from_utf8_lossy(&b).into_owned()))
        }
        _ => {
            let val = serde_json::to_value(v).map_err(ser)?;
            let s = val.to_string();
            let back = serde_json::from_value(val).map_err(|e| format!("deserialise: {e} [{}]; json head: {}", CARRIERS[carrier], s.chars().take(300).collect::<String>()))?;
            Ok((back, s))
        }
    }
}

/// does serde_json itself (not the library) refuse the JSON text of this message? decided on the untyped tree: parsing the
/// library's output into serde_json::Value involves none of the library's Deserialize code
fn carrier_refuses(m: &Model) -> bool {
    let req = mirror::to_ipp(m);
    match serde_json::to_string(&req) {
        Ok(s) => serde_json::from_str::<serde_json::Value>(&s).is_err(),
        Err(_) => false,
    }
}

fn one(rep: &mut Report, m: &Model, seed: u64, idx: u64) {
    for carrier in 0..CARRIERS.len() {
        one_carrier(rep, m, seed, idx, carrier);
    }
}

fn one_carrier(rep: &mut Report, m: &Model, seed: u64, idx: u64, carrier: usize) {
    rep.seen("carriers", CARRIERS[carrier]);
    let replay = vec!["c20".to_string(), "--seed".into(), seed.to_string(), "--only".into(), idx.to_string()];
    let mut expected = m.clone();
    expected.data.clear();
    let t = gen::traits(m);
    // message
    rep.eval();
    let r = catch(|| {
        let mut req = mirror::to_ipp(m);
        if !m.data.is_empty() {
            *req.payload_mut() = IppPayload::new(std::io::Cursor::new(m.data.clone()));
        }
        let (mut back, s): (IppRequestResponse, String) = rt(&req, carrier)?;
        let got = mirror::from_ipp_head(back.header(), back.attributes());
        let mut rest = vec![];
        back.payload_mut().read_to_end(&mut rest).map_err(|e| format!("payload read: {e}"))?;
        Ok::<_, String>((got, rest.len(), s))
    });
    match r {
        Err(p) => rep.violation(format!("C20:panic:{}", panic_site(&p)), format!("case {idx}: {p}"), replay.clone()),
        Ok(Err(e)) => rep.violation(format!("C20:{}", e.split(':').next().unwrap_or("error")), format!("case {idx}: {e}"), replay.clone()),
        Ok(Ok((got, rest, s))) => {
            if let Some(d) = mirror::diff(&expected, &got) {
                rep.violation("C20:message-differs", format!("case {idx} [{}]: before vs after the JSON round trip: {d}; json head: {}", CARRIERS[carrier], s.chars().take(400).collect::<String>()), replay.clone());
            } else if t.nontrivial() && carrier == 0 {
                rep.nontrivial(hash64(s.as_bytes()));
            }
            if rest != 0 {
                rep.violation("C20:payload-not-empty", format!("case {idx}: {rest} payload bytes after deserialisation (payload is not serialised and must be empty)"), replay.clone());
            }
            if rep.samples.len() < 3 && idx % 1499 == 4 {
                rep.sample(J::obj().with("case", idx).with("json_head", s.chars().take(300).collect::<String>()));
            }
        }
    }
    // the same object serialised again after it was edited through attributes_mut() (one attribute removed, another name inserted:
    // the count stays, the name set changes) - nothing remembered from the first serialisation may leak into the second
    if carrier == 0 {
        if let Some(gi) = m.groups.iter().position(|g| !g.attrs.is_empty()) {
            rep.eval();
            rep.count("serialised_again_after_edit", 1);
            let r = catch(|| {
                let mut req = mirror::to_ipp(m);
                let (_, first) = rt::<IppRequestResponse>(&req, 0)?;
                std::hint::black_box(first.len());
                let victim = m.groups[gi].attrs.keys().next().unwrap().clone();
                let g = &mut req.attributes_mut().groups_mut()[gi];
                g.attributes_mut().remove(&victim);
                g.attributes_mut().insert("verif-edited".to_string(), ipp::attribute::IppAttribute::new("verif-edited", IppValue::Integer(7)));
                let (back, s) = rt::<IppRequestResponse>(&req, 0)?;
                let mut want = expected.clone();
                want.groups[gi].attrs.remove(&victim);
                want.groups[gi].attrs.insert("verif-edited".to_string(), ippref::MVal::Integer(7));
                Ok::<_, String>((mirror::diff(&want, &mirror::from_ipp_head(back.header(), back.attributes())), s))
            });
            match r {
                Err(p) => rep.violation(format!("C20:panic:{}", panic_site(&p)), format!("case {idx} (serialised again after an edit): {p}"), replay.clone()),
                Ok(Err(e)) => rep.violation(format!("C20:{}", e.split(':').next().unwrap_or("error")), format!("case {idx} (serialised again after an edit): {e}"), replay.clone()),
                Ok(Ok((Some(d), s))) => rep.violation("C20:message-differs:after-edit", format!("case {idx}: serialise, edit through attributes_mut(), serialise again: {d}; json head: {}", s.chars().take(300).collect::<String>()), replay.clone()),
                Ok(Ok((None, _))) => {}
            }
        }
    }
    // IppAttributes alone, IppValue alone
    rep.eval();
    let r = catch(|| {
        let req = mirror::to_ipp(m);
        let (back, _): (IppAttributes, String) = rt(req.attributes(), carrier)?;
        Ok::<_, String>(mirror::from_ipp_attrs(&back))
    });
    match r {
        Err(p) => rep.violation(format!("C20:panic:{}", panic_site(&p)), format!("case {idx} (attributes): {p}"), replay.clone()),
        Ok(Err(e)) => rep.violation(format!("C20:attributes-{}", e.split(':').next().unwrap_or("error")), format!("case {idx}: {e}"), replay.clone()),
        Ok(Ok(groups)) => {
            if groups != expected.groups {
                rep.violation("C20:attributes-differ", format!("case {idx}: IppAttributes differ after the JSON round trip"), replay.clone());
            }
        }
    }
    for g in &m.groups {
        for (k, v) in &g.attrs {
            rep.eval();
            rep.count("values_alone", 1);
            gen::visit_kinds(v, &mut |kk| rep.seen("kinds", ippref::KIND_NAMES[kk]));
            let iv = mirror::to_ipp_value(v);
            let r = catch(|| {
                let (back, _): (IppValue, String) = rt(&iv, carrier)?;
                Ok::<_, String>(back == iv)
            });
            match r {
                Ok(Ok(true)) => {}
                other => rep.violation("C20:value-differs", format!("case {idx} attribute {k:?}: IppValue round trip gave {other:?} for {}", mirror::vshort(v)), replay.clone()),
            }
        }
    }
}

fn main() {
    let args = Args::from_env();
    let tier = args.str("--tier", "quick");
    let seed = args.u64("--seed", 1);
    let out = args.str("--out", "");
    vkit::util::install_panic_hook();
    // every log level is taken (and discarded), so that the arguments of the library's log macros are evaluated
    vkit::util::install_logger();
    let t0 = std::time::Instant::now();
    let shapes = gen::shapes();
    let n = args.u64("--cases", if tier == "thorough" { 1_000_000 } else { 10_000 });
    let only = args.get("--only").and_then(|s| s.parse::<u64>().ok());
    let total = shapes.len() as u64 + n;
    let nthreads = if only.is_some() { 1 } else { threads() };
    let parts = par(nthreads, |shard| {
        let mut rep = Report::new("C20", &tier, seed);
        let mut idx = shard as u64;
        while idx < total {
            if only.map(|o| o == idx).unwrap_or(true) {
                let m = case(&shapes, seed, idx);
                // the JSON carrier (serde_json) refuses documents nested deeper than 128 levels; a collection level costs 2-3
                // the JSON carrier (serde_json) refuses documents nested deeper than 128 JSON levels (a collection level costs 2-3):
                // beyond 20 collection levels a message is judged only if the carrier itself accepts the library's JSON
                if gen::traits(&m).depth > 20 && carrier_refuses(&m) {
                    rep.count("skipped_deeper_than_carrier_limit", 1);
                } else {
                    if gen::traits(&m).depth > 20 {
                        rep.count("judged_deeper_than_20_levels", 1);
                    }
                    one(&mut rep, &m, seed, idx);
                }
            }
            idx += nthreads as u64;
        }
        rep
    });
    let mut rep = Report::new("C20", &tier, seed);
    for r in parts {
        rep.merge(r);
    }
    rep.rule = "G1 messages (C01's shapes, then seeded random; all 22 kinds, raw-octet values, nested collections, boundary lengths) built with the serde feature on: serde_json round trip of IppRequestResponse (non-empty payload attached) through five carriers - to_string/from_str, to_vec/from_slice, to_writer/from_reader (non-borrowing), to_value/from_value (tree), to_string_pretty/from_str - -> mirror equality of header, groups, names, values; payload afterwards reads 0 bytes; additionally IppAttributes alone and every attribute's IppValue alone (PartialEq after the round trip). evaluations = round trips; non-trivial as in C01, distinct by JSON text.".into();
    rep.assumptions.push("carrier limit: messages nested deeper than 20 collection levels are skipped (serde_json's recursion limit of 128 JSON levels is a property of the carrier, not of the library)".into());
    if only.is_none() {
        let kinds = rep.sets.get("kinds").map(|s| s.len()).unwrap_or(0);
        rep.require(kinds == 22, &format!("all 22 value kinds exercised (saw {kinds})"));
    }
    let wall = t0.elapsed().as_secs_f64();
    if out.is_empty() {
        println!("{}", rep.to_json(wall).to_string());
    } else {
        rep.write(&out, wall);
    }
    eprintln!("C20: evaluations={} distinct_nontrivial={} violations={} inconclusive={} wall={:.1}s", rep.evaluations, rep.distinct_nontrivial(), rep.violations_total, rep.inconclusive.len(), wall);
}
