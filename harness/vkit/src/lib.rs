//! Shared kit for the runtime monitors: PRNG, generators, mirror conversions,
//! scripted sources + executor, counting allocator, result collector.

pub mod alloc;
pub mod gen;
pub mod json;
pub mod mirror;
pub mod out;
pub mod rng;
pub mod src;
pub mod util;
