//! Minimal JSON value + serializer (no serde in the core harness).

use std::collections::BTreeMap;

#[derive(Clone, Debug, PartialEq)]
pub enum J {
    Null,
    Bool(bool),
    Int(i64),
    Num(f64),
    Str(String),
    Arr(Vec<J>),
    Obj(BTreeMap<String, J>),
}

impl J {
    pub fn obj() -> J {
        J::Obj(BTreeMap::new())
    }
    pub fn set(&mut self, k: &str, v: impl Into<J>) -> &mut J {
        if let J::Obj(m) = self {
            m.insert(k.to_string(), v.into());
        }
        self
    }
    pub fn with(mut self, k: &str, v: impl Into<J>) -> J {
        self.set(k, v);
        self
    }
    pub fn push(&mut self, v: impl Into<J>) {
        if let J::Arr(a) = self {
            a.push(v.into());
        }
    }
    pub fn to_string(&self) -> String {
        let mut s = String::new();
        self.write(&mut s);
        s
    }
    fn write(&self, out: &mut String) {
        match self {
            J::Null => out.push_str("null"),
            J::Bool(b) => out.push_str(if *b { "true" } else { "false" }),
            J::Int(i) => out.push_str(&i.to_string()),
            J::Num(f) => {
                if f.is_finite() {
                    out.push_str(&format!("{f}"))
                } else {
                    out.push_str("null")
                }
            }
            J::Str(s) => write_str(s, out),
            J::Arr(a) => {
                out.push('[');
                for (i, x) in a.iter().enumerate() {
                    if i > 0 {
                        out.push(',');
                    }
                    x.write(out);
                }
                out.push(']');
            }
            J::Obj(m) => {
                out.push('{');
                for (i, (k, v)) in m.iter().enumerate() {
                    if i > 0 {
                        out.push(',');
                    }
                    write_str(k, out);
                    out.push(':');
                    v.write(out);
                }
                out.push('}');
            }
        }
    }
}

fn write_str(s: &str, out: &mut String) {
    out.push('"');
    for c in s.chars() {
        match c {
            '"' => out.push_str("\\\""),
            '\\' => out.push_str("\\\\"),
            '\n' => out.push_str("\\n"),
            '\r' => out.push_str("\\r"),
            '\t' => out.push_str("\\t"),
            c if (c as u32) < 0x20 => out.push_str(&format!("\\u{:04x}", c as u32)),
            c => out.push(c),
        }
    }
    out.push('"');
}

impl From<bool> for J {
    fn from(v: bool) -> J {
        J::Bool(v)
    }
}
impl From<i64> for J {
    fn from(v: i64) -> J {
        J::Int(v)
    }
}
impl From<i32> for J {
    fn from(v: i32) -> J {
        J::Int(v as i64)
    }
}
impl From<u64> for J {
    fn from(v: u64) -> J {
        J::Int(v as i64)
    }
}
impl From<u32> for J {
    fn from(v: u32) -> J {
        J::Int(v as i64)
    }
}
impl From<usize> for J {
    fn from(v: usize) -> J {
        J::Int(v as i64)
    }
}
impl From<f64> for J {
    fn from(v: f64) -> J {
        J::Num(v)
    }
}
impl From<&str> for J {
    fn from(v: &str) -> J {
        J::Str(v.to_string())
    }
}
impl From<String> for J {
    fn from(v: String) -> J {
        J::Str(v)
    }
}
impl From<Vec<J>> for J {
    fn from(v: Vec<J>) -> J {
        J::Arr(v)
    }
}
impl From<Vec<String>> for J {
    fn from(v: Vec<String>) -> J {
        J::Arr(v.into_iter().map(J::Str).collect())
    }
}

pub fn hex(b: &[u8]) -> String {
    let mut s = String::with_capacity(b.len() * 2);
    for x in b {
        s.push_str(&format!("{x:02x}"));
    }
    s
}

/// hex, truncated in the middle for very long inputs (for samples, not replays)
pub fn hex_short(b: &[u8], max: usize) -> String {
    if b.len() <= max {
        hex(b)
    } else {
        format!("{}..({} bytes)..{}", hex(&b[..max / 2]), b.len(), hex(&b[b.len() - max / 2..]))
    }
}

pub fn unhex(s: &str) -> Option<Vec<u8>> {
    let s = s.trim();
    if s.len() % 2 != 0 {
        return None;
    }
    let b = s.as_bytes();
    let mut v = Vec::with_capacity(s.len() / 2);
    for i in (0..b.len()).step_by(2) {
        let h = (b[i] as char).to_digit(16)?;
        let l = (b[i + 1] as char).to_digit(16)?;
        v.push((h * 16 + l) as u8);
    }
    Some(v)
}
