//! Counting global allocator (deterministic step measure for C15).
//! Address-agnostic: it never remembers pointers, so leak detectors still work.

use std::alloc::{GlobalAlloc, Layout, System};
use std::sync::atomic::{AtomicU64, Ordering::Relaxed};

pub struct Counting;

pub static CALLS: AtomicU64 = AtomicU64::new(0);
pub static BYTES: AtomicU64 = AtomicU64::new(0);
pub static LIVE: AtomicU64 = AtomicU64::new(0);
pub static PEAK: AtomicU64 = AtomicU64::new(0);

unsafe impl GlobalAlloc for Counting {
    unsafe fn alloc(&self, l: Layout) -> *mut u8 {
        CALLS.fetch_add(1, Relaxed);
        BYTES.fetch_add(l.size() as u64, Relaxed);
        let live = LIVE.fetch_add(l.size() as u64, Relaxed) + l.size() as u64;
        PEAK.fetch_max(live, Relaxed);
        System.alloc(l)
    }
    unsafe fn dealloc(&self, p: *mut u8, l: Layout) {
        LIVE.fetch_sub(l.size() as u64, Relaxed);
        System.dealloc(p, l)
    }
    unsafe fn realloc(&self, p: *mut u8, l: Layout, new: usize) -> *mut u8 {
        CALLS.fetch_add(1, Relaxed);
        if new > l.size() {
            let d = (new - l.size()) as u64;
            // a growing realloc is counted with the full size requested: whether the block grows in place or is copied is the
            // allocator's business, the program asked for `new` bytes (amortised doubling stays linear under this measure,
            // growing by a constant per element does not)
            BYTES.fetch_add(new as u64, Relaxed);
            let live = LIVE.fetch_add(d, Relaxed) + d;
            PEAK.fetch_max(live, Relaxed);
        } else {
            LIVE.fetch_sub((l.size() - new) as u64, Relaxed);
        }
        System.realloc(p, l, new)
    }
}

#[derive(Clone, Copy, Debug)]
pub struct Snap {
    pub calls: u64,
    pub bytes: u64,
    pub live: u64,
}

pub fn snap() -> Snap {
    Snap { calls: CALLS.load(Relaxed), bytes: BYTES.load(Relaxed), live: LIVE.load(Relaxed) }
}

/// start a peak window at the current live size
pub fn reset_peak() {
    PEAK.store(LIVE.load(Relaxed), Relaxed);
}
pub fn peak() -> u64 {
    PEAK.load(Relaxed)
}
