//! Seeded PRNG (splitmix64 seeding, xoshiro256**), no external crates.

#[derive(Clone, Debug)]
pub struct Rng {
    s: [u64; 4],
    /// byte-driven mode (fuzzing): choices are read from this tape instead of the PRNG; zeros once exhausted
    tape: Option<(std::sync::Arc<Vec<u8>>, usize)>,
}

fn splitmix(x: &mut u64) -> u64 {
    *x = x.wrapping_add(0x9E3779B97F4A7C15);
    let mut z = *x;
    z = (z ^ (z >> 30)).wrapping_mul(0xBF58476D1CE4E5B9);
    z = (z ^ (z >> 27)).wrapping_mul(0x94D049BB133111EB);
    z ^ (z >> 31)
}

impl Rng {
    pub fn new(seed: u64) -> Rng {
        let mut x = seed;
        Rng { s: [splitmix(&mut x), splitmix(&mut x), splitmix(&mut x), splitmix(&mut x)], tape: None }
    }
    /// every choice is decoded from `data` (1, 2, 4 or 8 bytes per choice depending on its range): a coverage-guided
    /// fuzzer that mutates `data` thereby mutates the generated structure
    pub fn from_bytes(data: &[u8]) -> Rng {
        Rng { s: [0; 4], tape: Some((std::sync::Arc::new(data.to_vec()), 0)) }
    }
    pub fn tape_exhausted(&self) -> bool {
        self.tape.as_ref().map(|(d, p)| *p >= d.len()).unwrap_or(false)
    }
    fn take(&mut self, n: usize) -> u64 {
        let (d, p) = self.tape.as_mut().unwrap();
        let mut x = 0u64;
        for i in 0..n {
            if let Some(b) = d.get(*p + i) {
                x |= (*b as u64) << (8 * i);
            }
        }
        *p += n;
        x
    }
    /// independent sub-stream
    pub fn fork(seed: u64, stream: u64) -> Rng {
        Rng::new(seed ^ stream.wrapping_mul(0xD1342543DE82EF95).rotate_left(17) ^ 0xA5A5_5A5A_1234_8765)
    }
    pub fn next(&mut self) -> u64 {
        if self.tape.is_some() {
            return self.take(8);
        }
        let r = self.s[1].wrapping_mul(5).rotate_left(7).wrapping_mul(9);
        let t = self.s[1] << 17;
        self.s[2] ^= self.s[0];
        self.s[3] ^= self.s[1];
        self.s[1] ^= self.s[2];
        self.s[0] ^= self.s[3];
        self.s[2] ^= t;
        self.s[3] = self.s[3].rotate_left(45);
        r
    }
    /// uniform in 0..n (n>0)
    pub fn below(&mut self, n: u64) -> u64 {
        debug_assert!(n > 0);
        if self.tape.is_some() {
            let k = if n <= 0x100 {
                1
            } else if n <= 0x1_0000 {
                2
            } else if n <= 0x1_0000_0000 {
                4
            } else {
                8
            };
            return self.take(k) % n;
        }
        ((self.next() as u128 * n as u128) >> 64) as u64
    }
    pub fn range(&mut self, lo: usize, hi_incl: usize) -> usize {
        lo + self.below((hi_incl - lo + 1) as u64) as usize
    }
    pub fn chance(&mut self, num: u64, den: u64) -> bool {
        self.below(den) < num
    }
    pub fn pick<'a, T>(&mut self, xs: &'a [T]) -> &'a T {
        &xs[self.below(xs.len() as u64) as usize]
    }
    pub fn u8(&mut self) -> u8 {
        self.next() as u8
    }
    pub fn i32(&mut self) -> i32 {
        match self.below(8) {
            0 => *self.pick(&[0, 1, -1, i32::MAX, i32::MIN, 255, 256, 65535, 65536, -256, 0x7fff, 0x8000]),
            _ => self.next() as i32,
        }
    }
    pub fn bytes(&mut self, n: usize) -> Vec<u8> {
        let mut v = Vec::with_capacity(n);
        while v.len() < n {
            let x = self.next().to_le_bytes();
            let k = (n - v.len()).min(8);
            v.extend_from_slice(&x[..k]);
        }
        v
    }
    pub fn shuffle<T>(&mut self, v: &mut [T]) {
        for i in (1..v.len()).rev() {
            let j = self.below(i as u64 + 1) as usize;
            v.swap(i, j);
        }
    }
}

pub fn hash64(b: &[u8]) -> u64 {
    // FNV-1a 64 followed by a splitmix finalizer
    let mut h: u64 = 0xcbf29ce484222325;
    for &x in b {
        h ^= x as u64;
        h = h.wrapping_mul(0x100000001b3);
    }
    let mut z = h;
    z = (z ^ (z >> 30)).wrapping_mul(0xBF58476D1CE4E5B9);
    z = (z ^ (z >> 27)).wrapping_mul(0x94D049BB133111EB);
    z ^ (z >> 31)
}
