//! Result collector shared by all monitors. The binary writes one result JSON;
//! the python driver applies the known-findings policy, prints the verdict
//! lines and writes the evidence file.

use crate::json::J;
use std::collections::{BTreeMap, BTreeSet, HashSet};

pub struct Violation {
    /// stable class of the failure (input family + failure kind + phase ...)
    pub signature: String,
    pub detail: String,
    /// argv that re-executes exactly this case with the same binary
    pub replay: Vec<String>,
}

pub struct Report {
    pub property: String,
    pub tier: String,
    pub seed: u64,
    pub rule: String,
    pub evaluations: u64,
    distinct: HashSet<u64>,
    pub counters: BTreeMap<String, i64>,
    pub sets: BTreeMap<String, BTreeSet<String>>,
    pub samples: Vec<J>,
    pub max_samples: usize,
    pub violations: Vec<Violation>,
    pub violations_total: u64,
    seen_sigs: BTreeMap<String, u32>,
    pub inconclusive: Vec<String>,
    pub extra: BTreeMap<String, J>,
    pub exhaustive: Option<bool>,
    pub assumptions: Vec<String>,
}

impl Report {
    pub fn new(property: &str, tier: &str, seed: u64) -> Report {
        Report {
            property: property.to_string(),
            tier: tier.to_string(),
            seed,
            rule: String::new(),
            evaluations: 0,
            distinct: HashSet::new(),
            counters: BTreeMap::new(),
            sets: BTreeMap::new(),
            samples: Vec::new(),
            max_samples: 6,
            violations: Vec::new(),
            violations_total: 0,
            seen_sigs: BTreeMap::new(),
            inconclusive: Vec::new(),
            extra: BTreeMap::new(),
            exhaustive: None,
            assumptions: Vec::new(),
        }
    }
    pub fn eval(&mut self) {
        self.evaluations += 1;
    }
    /// count a distinct non-trivial case by a hash of its content
    pub fn nontrivial(&mut self, h: u64) {
        // bounded memory: beyond 4M entries stop inserting (count stays a lower bound)
        if self.distinct.len() < 4_000_000 {
            self.distinct.insert(h);
        }
    }
    pub fn distinct_nontrivial(&self) -> usize {
        self.distinct.len()
    }
    pub fn count(&mut self, k: &str, n: i64) {
        *self.counters.entry(k.to_string()).or_insert(0) += n;
    }
    pub fn max(&mut self, k: &str, n: i64) {
        let e = self.counters.entry(k.to_string()).or_insert(i64::MIN);
        if n > *e {
            *e = n;
        }
    }
    pub fn seen(&mut self, set: &str, item: impl Into<String>) {
        let s = self.sets.entry(set.to_string()).or_default();
        if s.len() < 10_000 {
            s.insert(item.into());
        }
    }
    pub fn sample(&mut self, j: J) {
        if self.samples.len() < self.max_samples {
            self.samples.push(j);
        }
    }
    pub fn violation(&mut self, signature: impl Into<String>, detail: impl Into<String>, replay: Vec<String>) {
        self.violations_total += 1;
        let signature = signature.into();
        let n = self.seen_sigs.entry(signature.clone()).or_insert(0);
        *n += 1;
        // keep up to 3 witnesses per signature, 60 overall
        if *n <= 3 && self.violations.len() < 60 {
            let mut detail: String = detail.into();
            if detail.len() > 4000 {
                let mut cut = 4000;
                while !detail.is_char_boundary(cut) {
                    cut -= 1;
                }
                detail.truncate(cut);
                detail.push_str("...");
            }
            self.violations.push(Violation { signature, detail, replay });
        }
    }
    pub fn inconclusive(&mut self, why: impl Into<String>) {
        self.inconclusive.push(why.into());
    }
    /// coverage floor: missing it makes the run inconclusive, never a pass
    pub fn require(&mut self, cond: bool, what: &str) {
        if !cond {
            self.inconclusive(format!("coverage floor missed: {what}"));
        }
    }
    pub fn merge(&mut self, other: Report) {
        self.evaluations += other.evaluations;
        for h in other.distinct {
            self.nontrivial(h);
        }
        for (k, v) in other.counters {
            if k.starts_with("max_") {
                self.max(&k, v);
            } else {
                self.count(&k, v);
            }
        }
        for (k, s) in other.sets {
            for i in s {
                self.seen(&k, i);
            }
        }
        for s in other.samples {
            self.sample(s);
        }
        self.violations_total += other.violations_total - other.violations.len() as u64;
        for v in other.violations {
            self.violation(v.signature, v.detail, v.replay);
        }
        self.inconclusive.extend(other.inconclusive);
        for (k, v) in other.extra {
            self.extra.insert(k, v);
        }
    }
    pub fn to_json(&self, wall_s: f64) -> J {
        let mut cov = J::obj();
        cov.set("evaluations", self.evaluations);
        cov.set("distinct_nontrivial", self.distinct.len());
        cov.set("rule", self.rule.as_str());
        cov.set("samples", J::Arr(self.samples.clone()));
        if let Some(e) = self.exhaustive {
            cov.set("exhaustive", e);
        }
        let mut counters = J::obj();
        for (k, v) in &self.counters {
            counters.set(k, *v);
        }
        cov.set("counters", counters);
        let mut sets = J::obj();
        for (k, v) in &self.sets {
            let mut o = J::obj();
            o.set("n", v.len());
            o.set("items", J::Arr(v.iter().take(64).map(|s| J::Str(s.clone())).collect()));
            sets.set(k, o);
        }
        cov.set("observed_sets", sets);
        for (k, v) in &self.extra {
            cov.set(k, v.clone());
        }
        // what the all-levels sink logger consumed (0 when no logger was installed: the cost measurements)
        let recs = crate::util::LOGGED_RECORDS.load(std::sync::atomic::Ordering::Relaxed);
        if recs > 0 {
            cov.set("library_log_records_formatted", recs as i64);
            cov.set("library_log_bytes_formatted", crate::util::LOGGED_BYTES.load(std::sync::atomic::Ordering::Relaxed) as i64);
        }
        let mut j = J::obj();
        j.set("property_id", self.property.as_str());
        j.set("tier", self.tier.as_str());
        j.set("seed", self.seed);
        j.set("coverage", cov);
        j.set("wall_s", wall_s);
        j.set("violations_total", self.violations_total);
        j.set(
            "violations",
            J::Arr(
                self.violations
                    .iter()
                    .map(|v| {
                        J::obj()
                            .with("signature", v.signature.as_str())
                            .with("detail", v.detail.as_str())
                            .with("replay", J::Arr(v.replay.iter().map(|s| J::Str(s.clone())).collect()))
                    })
                    .collect(),
            ),
        );
        j.set("inconclusive", J::Arr(self.inconclusive.iter().map(|s| J::Str(s.clone())).collect()));
        j.set("assumptions", J::Arr(self.assumptions.iter().map(|s| J::Str(s.clone())).collect()));
        j
    }
    pub fn write(&self, path: &str, wall_s: f64) {
        let s = self.to_json(wall_s).to_string();
        std::fs::write(path, s).expect("write result");
    }
}
