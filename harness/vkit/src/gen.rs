//! Generators: G1 value-model messages, G2 wire trees, G3 hostile corpora
//! (token sequences, grids, mutations, bombs).

use crate::rng::Rng;
use ippref::*;
use std::collections::BTreeMap;

// ---------------------------------------------------------------- strings

const WORDS: &[&str] = &[
    "attributes-charset", "attributes-natural-language", "printer-uri", "job-uri", "job-id", "job-name", "copies", "sides",
    "media-col", "media-size", "x-dimension", "y-dimension", "media-type", "printer-state", "printer-state-reasons",
    "requesting-user-name", "document-format", "finishings", "a", "b", "c", "d", "e", "x", "y", "z",
    // words that coincide with identifiers of the library's own data model (serialisers key on them)
    "tag", "name", "value", "attributes", "groups", "header", "version", "payload", "data", "no-value", "NoValue", "integer", "Integer",
    "keyword", "Keyword", "boolean", "other", "Other", "null", "true", "collection", "array", "Array", "language", "text",
];

/// arbitrary UTF-8 of exactly `n` bytes
pub fn utf8_exact(rng: &mut Rng, n: usize) -> String {
    let mut s = String::with_capacity(n);
    let style = rng.below(4);
    while s.len() < n {
        let left = n - s.len();
        let c: char = match style {
            0 => (b'a' + rng.below(26) as u8) as char,
            1 => {
                let cp = match rng.below(6) {
                    0 => rng.below(0x80) as u32,
                    1 => 0x80 + rng.below(0x780) as u32,
                    2 => 0x800 + rng.below(0xD000) as u32,
                    3 => 0x10000 + rng.below(0x100000) as u32,
                    _ => 0x20 + rng.below(0x5f) as u32,
                };
                char::from_u32(cp).unwrap_or('?')
            }
            2 => *rng.pick(&['\0', '\n', '=', '"', '\\', 'é', '€', '𝄞', ' ', '\u{fffd}', 'a', '-']),
            _ => (0x21 + rng.below(0x5e) as u8) as char,
        };
        if c.len_utf8() <= left {
            s.push(c);
        } else {
            s.push('x');
        }
    }
    debug_assert_eq!(s.len(), n);
    s
}

pub const BOUNDARY_LENS: [usize; 5] = [0, 1, 255, 256, 65535];

fn str_len(rng: &mut Rng, big: bool) -> usize {
    match rng.below(100) {
        0..=59 => rng.range(0, 12),
        60..=84 => rng.range(0, 40),
        85..=90 => *rng.pick(&[0usize, 1, 255, 256]),
        91..=92 => *rng.pick(&[63usize, 64, 65, 127, 128, 1023, 1024, 1025, 4095, 4096, 4097, 8192]),
        93..=96 => rng.range(200, 600),
        _ => {
            if big {
                *rng.pick(&[65535usize, 65534, 32767, 32768, 65535, 32766, 16384, 40000])
            } else {
                rng.range(0, 300)
            }
        }
    }
}

/// strings that collide with escape / quoting conventions of common carrier formats
pub const TRICKY: &[&str] = &[
    "\\x41", "C:\\x64\\driver.inf", "a\\xFFb", "\\u0041", "\\n", "\\", "\\\\", "%41", "&amp;", "<a>", "\"", "\"\"", "'", "\"utf-8\"", "\u{85}", "\u{9f}x", "\u{80}",
    "a\0", "\0", " 2", "2 ", "true ", " false", "\t1", "1\n", "null", "NaN", "-0", "+5", "0x10", "1e3", "\u{feff}bom", "\u{2028}", "\u{7f}",
    // URI-shaped strings whose delimiters come in an unusual order or number (code that slices around "://", '@', ':' or '?')
    "a@b://c", "@://", "://", "://@", "mailto:operator@example.com?body=see%20http://printer.local/", "ipp://u:p@h/", "ipp://@h", "ipp://h:/", "ipp://[::1", "ipp:///p",
    "http://a@b@c/", "x:y:z", "a?b?c", "a#b#", "//", "/", ":", "@", "?", "#", "[", "]", "%", "%%", "%4", "%zz", "ipp://h/%", "a=b=c", "a,b,,", "; ", "utf-8;q=1", "text/plain; charset=\"x\"",
];

pub fn gen_string(rng: &mut Rng, big: bool) -> String {
    if rng.chance(1, 5) {
        return rng.pick(WORDS).to_string();
    }
    if rng.chance(1, 12) {
        return rng.pick(TRICKY).to_string();
    }
    let n = str_len(rng, big);
    utf8_exact(rng, n)
}

/// unique non-empty attribute name
pub fn gen_name(rng: &mut Rng, big: bool, taken: &dyn Fn(&str) -> bool) -> String {
    for _ in 0..50 {
        let s = match rng.below(100) {
            0..=39 => rng.pick(WORDS).to_string(),
            40..=89 => {
                let n = rng.range(1, 24);
                utf8_exact(rng, n)
            }
            90..=95 => {
                let n = *rng.pick(&[1usize, 2, 255, 256]);
                utf8_exact(rng, n)
            }
            _ => {
                let n = if big { *rng.pick(&[32767usize, 65535, 256, 255]) } else { rng.range(1, 64) };
                utf8_exact(rng, n)
            }
        };
        if !s.is_empty() && !taken(&s) {
            return s;
        }
    }
    // fall back to a counter-like unique name
    let mut i = 0u32;
    loop {
        let s = format!("n{i}-{}", rng.next());
        if !taken(&s) {
            return s;
        }
        i += 1;
    }
}

// ---------------------------------------------------------------- G1

/// value tags that have no kind of their own in the public model and are not structural
pub fn other_tags() -> Vec<u8> {
    let mut v = vec![];
    v.extend(0x10..=0x12u8);
    v.extend(0x14..=0x20u8);
    v.extend(0x24..=0x2fu8);
    v.extend(0x38..=0x40u8);
    v.push(0x43);
    v
}

#[derive(Clone, Debug)]
pub struct G1Cfg {
    pub big: bool,
    pub max_depth: usize,
    /// allow non-empty data for the out-of-band tags 0x10 / 0x12 (not RFC-well-formed)
    pub oob_nonempty: bool,
    pub max_groups: usize,
    pub max_attrs: usize,
}

impl Default for G1Cfg {
    fn default() -> Self {
        G1Cfg { big: false, max_depth: 6, oob_nonempty: true, max_groups: 4, max_attrs: 5 }
    }
}

pub const TEXT_KIND_TAGS: [u8; 9] = [0x30, 0x41, 0x42, 0x44, 0x45, 0x46, 0x47, 0x48, 0x49];

/// scalar (non-set, non-collection) of kind chosen at random
pub fn gen_scalar(rng: &mut Rng, cfg: &G1Cfg, in_coll: bool) -> MVal {
    loop {
        let k = rng.below(20);
        return match k {
            0 => MVal::Integer(rng.i32()),
            1 => MVal::Enum(rng.i32()),
            2 => MVal::Boolean(rng.chance(1, 2)),
            3..=9 => MVal::Text { tag: *rng.pick(&TEXT_KIND_TAGS), s: gen_string(rng, cfg.big) },
            10 => {
                if in_coll {
                    continue;
                }
                MVal::Text { tag: 0x4a, s: gen_string(rng, cfg.big) }
            }
            11 | 12 => {
                let tag = if k == 11 { 0x35 } else { 0x36 };
                if cfg.big && rng.chance(1, 8) {
                    // inner lengths summing to exactly 65531
                    let l = *rng.pick(&[0usize, 1, 2, 255, 65531, 32765]);
                    let lang = utf8_exact(rng, l);
                    let s = utf8_exact(rng, 65531 - l);
                    MVal::WithLang { tag, lang, s }
                } else {
                    let mut lang = gen_string(rng, false);
                    let mut s = gen_string(rng, false);
                    lang.truncate(floor_boundary(&lang, 300));
                    s.truncate(floor_boundary(&s, 600));
                    MVal::WithLang { tag, lang, s }
                }
            }
            13 => MVal::Range { min: rng.i32(), max: rng.i32() },
            14 => MVal::DateTime {
                year: rng.next() as u16,
                month: rng.u8(),
                day: rng.u8(),
                hour: rng.u8(),
                minutes: rng.u8(),
                seconds: rng.u8(),
                deci: rng.u8(),
                dir: if rng.chance(1, 2) { *rng.pick(&[b'+', b'-']) } else { rng.u8() },
                uh: rng.u8(),
                um: rng.u8(),
            },
            15 => MVal::Resolution { x: rng.i32(), y: rng.i32(), units: rng.u8() as i8 },
            16 => MVal::NoValue,
            _ => {
                let tags = other_tags();
                let tag = *rng.pick(&tags);
                let n = if (tag == 0x10 || tag == 0x12) && !cfg.oob_nonempty { 0 } else { str_len(rng, cfg.big) };
                // raw octets: random bytes, or text that looks like an escape sequence of some carrier format
                let data = if n > 0 && rng.chance(1, 6) { rng.pick(TRICKY).as_bytes().to_vec() } else { rng.bytes(n) };
                MVal::Other { tag, data }
            }
        };
    }
}

fn floor_boundary(s: &str, max: usize) -> usize {
    if s.len() <= max {
        return s.len();
    }
    let mut c = max;
    while !s.is_char_boundary(c) {
        c -= 1;
    }
    c
}

pub fn gen_coll(rng: &mut Rng, cfg: &G1Cfg, depth: usize) -> MVal {
    let n = match rng.below(100) {
        0..=9 => 0,
        10..=59 => rng.range(1, 2),
        99 if depth >= 1 => rng.range(100, 300), // wide collection
        _ => rng.range(1, 5),
    };
    let mut m = BTreeMap::new();
    for _ in 0..n {
        let name = if rng.chance(1, 25) {
            String::new()
        } else {
            let mm = &m;
            gen_name(rng, false, &|s: &str| mm.contains_key(s))
        };
        let v = if n > 12 { gen_scalar(rng, &G1Cfg { big: false, ..cfg.clone() }, true) } else { gen_value(rng, cfg, depth.saturating_sub(1), true) };
        m.insert(name, v);
    }
    MVal::Coll(m)
}

/// any value (scalar, set, collection); `depth` = remaining collection nesting budget
pub fn gen_value(rng: &mut Rng, cfg: &G1Cfg, depth: usize, in_coll: bool) -> MVal {
    match rng.below(10) {
        0..=5 => gen_scalar(rng, cfg, in_coll),
        6 | 7 => {
            // set of >= 2 non-set elements, homogeneous or mixed
            let n = match rng.below(64) {
                0 if depth <= 1 => rng.range(200, 700), // wide set (top levels only)
                1..=8 => rng.range(5, 12),
                _ => rng.range(2, 4),
            };
            let homogeneous = rng.chance(1, 2);
            let mut v = Vec::with_capacity(n);
            // wide sets hold small scalars only (no blow-up through nesting)
            let wide = n > 12;
            let small = G1Cfg { big: false, ..cfg.clone() };
            let first = if !wide && depth > 0 && rng.chance(1, 4) { gen_coll(rng, cfg, depth) } else { gen_scalar(rng, if wide { &small } else { cfg }, in_coll) };
            v.push(first);
            let mut retries = 0;
            while v.len() < n {
                let e = if !wide && depth > 0 && rng.chance(1, 5) { gen_coll(rng, cfg, depth) } else { gen_scalar(rng, if wide { &small } else { cfg }, in_coll) };
                if homogeneous && e.kind() != v[0].kind() && retries < 40 {
                    // retry a few times for a same-kind element (bounded: a byte-driven rng may keep saying "retry")
                    retries += 1;
                    if rng.chance(3, 4) {
                        continue;
                    }
                }
                v.push(e);
            }
            MVal::Set(v)
        }
        _ => {
            if depth > 0 {
                gen_coll(rng, cfg, depth)
            } else {
                gen_scalar(rng, cfg, in_coll)
            }
        }
    }
}

pub fn gen_header(rng: &mut Rng) -> (u16, u16, u32) {
    let version = match rng.below(6) {
        0 => rng.next() as u16,
        _ => *rng.pick(&[0x0100u16, 0x0101, 0x0200, 0x0201, 0x0202]),
    };
    let code = match rng.below(4) {
        0 => rng.next() as u16,
        1 => *rng.pick(&[0u16, 1, 2, 0x0400, 0x0401, 0x0500, 0xffff, 0x4002, 0x4028]),
        _ => rng.range(2, 0x12) as u16,
    };
    let id = match rng.below(4) {
        0 => *rng.pick(&[0u32, 1, u32::MAX, 0x7fff_ffff, 0x8000_0000]),
        _ => rng.next() as u32,
    };
    (version, code, id)
}

pub fn gen_payload(rng: &mut Rng, big: bool) -> Vec<u8> {
    match rng.below(10) {
        0..=3 => vec![],
        4 => vec![*rng.pick(&[0x03u8, 0x01, 0x00, 0xff, 0x21])],
        5 => {
            // looks like IPP: tags, end tags, a complete small message
            let mut v = vec![0x03, 0x03, 0x01, 0x21, 0x00, 0x01, b'a', 0x00, 0x04, 0, 0, 0, 1, 0x03];
            v.extend_from_slice(&[1, 1, 0, 0, 0, 0, 0, 1, 1, 3]);
            v
        }
        6..=8 => {
            let n = rng.range(1, 300);
            rng.bytes(n)
        }
        _ => {
            let n = if big { rng.range(60_000, 1_500_000) } else { rng.range(300, 5000) };
            rng.bytes(n)
        }
    }
}

pub fn gen_model(rng: &mut Rng, cfg: &G1Cfg) -> Model {
    let (version, code, id) = gen_header(rng);
    let mut groups = vec![];
    let ngroups = 1 + match rng.below(10) {
        0..=3 => 0,
        4..=7 => rng.range(1, 2),
        _ => rng.range(1, cfg.max_groups.max(1)),
    };
    let mut big_left = if cfg.big { 2 } else { 0 };
    for gi in 0..ngroups {
        let tag = if gi == 0 { 1 } else { *rng.pick(&[1u8, 2, 4, 5, 2, 4]) };
        let nattrs = match rng.below(200) {
            0..=19 => 0,
            20..=139 => rng.range(1, 3),
            199 => rng.range(120, 400), // a group with hundreds of attributes
            _ => rng.range(1, cfg.max_attrs.max(1)),
        };
        let mut attrs: BTreeMap<String, MVal> = BTreeMap::new();
        for _ in 0..nattrs {
            let use_big = big_left > 0 && rng.chance(1, 3);
            if use_big {
                big_left -= 1;
            }
            let c = G1Cfg { big: use_big, ..cfg.clone() };
            let name = {
                let a = &attrs;
                gen_name(rng, use_big, &|s: &str| a.contains_key(s))
            };
            let depth = match rng.below(10) {
                0..=5 => rng.range(0, 2),
                _ => rng.range(0, cfg.max_depth),
            };
            let v = if nattrs > 20 { gen_scalar(rng, &G1Cfg { big: false, ..c.clone() }, false) } else { gen_value(rng, &c, depth, false) };
            attrs.insert(name, v);
        }
        groups.push(MGroup { tag, attrs });
    }
    let data = gen_payload(rng, cfg.big);
    Model { version, code, id, groups, data }
}

pub fn chain(depth: usize, leaf: MVal, name: &str) -> MVal {
    let mut v = leaf;
    for _ in 0..depth {
        let mut m = BTreeMap::new();
        m.insert(name.to_string(), v);
        v = MVal::Coll(m);
    }
    v
}

/// one representative of each non-set kind (21 kinds: all except Array)
pub fn kind_reps() -> Vec<MVal> {
    let mut c = BTreeMap::new();
    c.insert("m".to_string(), MVal::Integer(7));
    vec![
        MVal::Integer(0x12345678),
        MVal::Enum(3),
        MVal::Text { tag: 0x30, s: "oct".into() },
        MVal::Text { tag: 0x41, s: "text é".into() },
        MVal::Text { tag: 0x42, s: "name".into() },
        MVal::WithLang { tag: 0x35, lang: "en".into(), s: "hello".into() },
        MVal::WithLang { tag: 0x36, lang: "fr".into(), s: "nom".into() },
        MVal::Text { tag: 0x47, s: "utf-8".into() },
        MVal::Text { tag: 0x48, s: "en-us".into() },
        MVal::Text { tag: 0x45, s: "ipp://h/p".into() },
        MVal::Text { tag: 0x46, s: "ipp".into() },
        MVal::Range { min: -5, max: 9 },
        MVal::Boolean(true),
        MVal::Text { tag: 0x44, s: "two-sided".into() },
        MVal::Coll(c),
        MVal::Text { tag: 0x49, s: "application/pdf".into() },
        MVal::DateTime { year: 2024, month: 2, day: 29, hour: 23, minutes: 59, seconds: 60, deci: 9, dir: b'+', uh: 13, um: 45 },
        MVal::Text { tag: 0x4a, s: "member".into() },
        MVal::Resolution { x: 600, y: 1200, units: 3 },
        MVal::NoValue,
        MVal::Other { tag: 0x2f, data: vec![1, 2, 3, 0xff] },
    ]
}

fn msg1(groups: Vec<MGroup>, data: Vec<u8>) -> Model {
    Model { version: 0x0101, code: 0x000b, id: 77, groups, data }
}

fn g(tag: u8, attrs: Vec<(&str, MVal)>) -> MGroup {
    MGroup { tag, attrs: attrs.into_iter().map(|(k, v)| (k.to_string(), v)).collect() }
}

/// deterministic prefix of hand-enumerated shapes (coverage guarantee)
pub fn shapes() -> Vec<Model> {
    let reps = kind_reps();
    let mut out = vec![];
    // each kind alone
    for r in &reps {
        out.push(msg1(vec![g(1, vec![("attr", r.clone())])], vec![]));
    }
    // every ordered pair of non-set kinds as a 2-set (member-name kind only outside collections: ok, top level)
    for a in &reps {
        for b in &reps {
            out.push(msg1(vec![g(1, vec![("pair", MVal::Set(vec![a.clone(), b.clone()]))])], vec![]));
        }
    }
    // 3-element mixed sets, last differs / middle differs
    out.push(msg1(vec![g(1, vec![("s3", MVal::Set(vec![MVal::Integer(1), MVal::Integer(2), MVal::Text { tag: 0x44, s: "k".into() }]))])], vec![]));
    out.push(msg1(vec![g(1, vec![("s3", MVal::Set(vec![MVal::Integer(1), MVal::Boolean(false), MVal::Integer(2)]))])], vec![]));
    // multi-valued member, first / middle / last member, followed by more members
    let in_coll: Vec<MVal> = reps.iter().filter(|r| !matches!(r, MVal::Text { tag: 0x4a, .. })).cloned().collect();
    for pos in 0..3 {
        let mut m = BTreeMap::new();
        for (i, n) in ["a", "b", "c"].iter().enumerate() {
            let v = if i == pos { MVal::Set(vec![MVal::Integer(1), MVal::Text { tag: 0x44, s: "two".into() }, MVal::Integer(3)]) } else { MVal::Integer(i as i32) };
            m.insert(n.to_string(), v);
        }
        out.push(msg1(vec![g(1, vec![]), g(4, vec![("coll", MVal::Coll(m))])], vec![]));
    }
    // every kind as member value, alone and as second value of a 2-valued member
    for r in &in_coll {
        let mut m = BTreeMap::new();
        m.insert("only".to_string(), r.clone());
        m.insert("zz-after".to_string(), MVal::Boolean(true));
        out.push(msg1(vec![g(1, vec![("c", MVal::Coll(m))])], vec![]));
        let mut m = BTreeMap::new();
        m.insert("two".to_string(), MVal::Set(vec![MVal::Integer(5), r.clone()]));
        m.insert("zz-after".to_string(), MVal::Boolean(true));
        out.push(msg1(vec![g(1, vec![("c", MVal::Coll(m))])], vec![]));
    }
    // declared charsets other than utf-8 next to non-ASCII text in every string syntax (the library is charset-agnostic: what
    // was encoded must come back whatever attributes-charset / attributes-natural-language say)
    for cs in ["iso-8859-1", "ISO-8859-1", "us-ascii", "latin1", "utf-16", "windows-1252", "Shift_JIS", ""] {
        for lang in ["en", "de-DE", "fr_CA", ""] {
            let t = |tag: u8, s: &str| MVal::Text { tag, s: s.to_string() };
            let mut m = BTreeMap::new();
            m.insert("mt".to_string(), t(0x41, "membre \u{e9}t\u{e9}"));
            out.push(msg1(
                vec![
                    g(1, vec![("attributes-charset", t(0x47, cs)), ("attributes-natural-language", t(0x48, lang)), ("t", t(0x41, "B\u{fc}ro")), ("n", t(0x42, "caf\u{e9}")), ("k", t(0x44, "gr\u{fc}n")), ("u", t(0x45, "ipp://h/\u{e9}"))]),
                    g(2, vec![("t2", t(0x41, "\u{20ac} 5")), ("set", MVal::Set(vec![t(0x42, "\u{e4}"), t(0x41, "\u{f6}")])), ("wl", MVal::WithLang { tag: 0x35, lang: "de".into(), s: "stra\u{df}e".into() }), ("c", MVal::Coll(m))]),
                ],
                vec![],
            ));
        }
    }
    // set of collections; set mixing collections and scalars
    let c1 = chain(1, MVal::Integer(1), "x");
    let c2 = chain(1, MVal::Integer(2), "y");
    out.push(msg1(vec![g(1, vec![("sc", MVal::Set(vec![c1.clone(), c2.clone()]))])], vec![]));
    out.push(msg1(vec![g(1, vec![("sc", MVal::Set(vec![c1.clone(), MVal::Integer(9), c2.clone()]))])], vec![]));
    out.push(msg1(vec![g(1, vec![("sc", MVal::Set(vec![MVal::Integer(9), c1.clone()]))])], vec![]));
    // collection in collection with multi-valued inner members
    {
        let mut inner = BTreeMap::new();
        inner.insert("i1".to_string(), MVal::Set(vec![MVal::Integer(1), MVal::Integer(2)]));
        inner.insert("i2".to_string(), MVal::Set(vec![c1.clone(), c2.clone()]));
        inner.insert("i3".to_string(), MVal::Text { tag: 0x44, s: "k".into() });
        let mut outer = BTreeMap::new();
        outer.insert("o1".to_string(), MVal::Coll(inner.clone()));
        outer.insert("o2".to_string(), MVal::Set(vec![MVal::Coll(inner.clone()), MVal::Coll(inner)]));
        outer.insert("".to_string(), MVal::Integer(0));
        out.push(msg1(vec![g(1, vec![("deep", MVal::Coll(outer))])], vec![]));
    }
    // empty collection, collection with empty member name, nested empties
    out.push(msg1(vec![g(1, vec![("e", MVal::Coll(BTreeMap::new()))])], vec![]));
    out.push(msg1(vec![g(1, vec![("e", chain(3, MVal::Coll(BTreeMap::new()), ""))])], vec![]));
    // chains
    // every depth up to 20 and the neighbourhood of the powers of two a nesting limit would sit at
    for d in (2usize..=20).chain([24, 31, 32, 33, 40, 50, 63, 64, 65, 100, 127, 128, 129, 200, 255, 256, 257, 300]) {
        out.push(msg1(vec![g(1, vec![("chain", chain(d, MVal::Integer(d as i32), "n"))])], vec![]));
    }
    // repeated / empty groups incl. a repeated operation group
    let a = |n: i32| ("k", MVal::Integer(n));
    out.push(msg1(vec![g(1, vec![])], vec![]));
    out.push(msg1(vec![g(1, vec![]), g(1, vec![])], vec![]));
    out.push(msg1(vec![g(1, vec![a(1)]), g(2, vec![a(2)]), g(1, vec![a(3)])], vec![]));
    out.push(msg1(vec![g(1, vec![a(1)]), g(1, vec![a(2)]), g(2, vec![])], vec![]));
    out.push(msg1(vec![g(1, vec![]), g(2, vec![a(1)]), g(2, vec![a(2)]), g(2, vec![]), g(4, vec![a(3)]), g(5, vec![a(4)]), g(4, vec![])], vec![]));
    out.push(msg1(vec![g(1, vec![a(1)]), g(5, vec![]), g(5, vec![]), g(1, vec![]), g(1, vec![a(5)])], vec![]));
    // header attributes in odd places
    out.push(msg1(
        vec![
            g(1, vec![("printer-uri", MVal::Integer(1)), ("attributes-charset", MVal::Boolean(true)), ("zzz", MVal::NoValue), ("attributes-natural-language", MVal::NoValue)]),
            g(2, vec![("attributes-charset", MVal::Integer(2)), ("printer-uri", MVal::Integer(3))]),
        ],
        vec![],
    ));
    // every subset of the five attributes the encoder treats specially, in the first operation group,
    // in a second operation group and in a job group (distinct values so that a swap shows)
    let hdr = ["attributes-charset", "attributes-natural-language", "printer-uri", "job-uri", "job-id"];
    for mask in 1u32..32 {
        let pick = |base: i32| -> Vec<(&str, MVal)> {
            hdr.iter().enumerate().filter(|(i, _)| mask >> i & 1 == 1).map(|(i, n)| (*n, if i == 4 { MVal::Integer(base + i as i32) } else { MVal::Text { tag: [0x47u8, 0x48, 0x45, 0x45, 0x21][i], s: format!("v{base}-{i}") } })).chain([("zz-other", MVal::Boolean(true))]).collect()
        };
        out.push(msg1(vec![g(1, pick(100))], vec![]));
        if mask % 3 == 0 || mask == 31 {
            out.push(msg1(vec![g(1, pick(100)), g(1, pick(200)), g(2, pick(300))], vec![]));
        }
    }
    // case variants of those names are ordinary attributes
    out.push(msg1(vec![g(1, vec![("job-id", MVal::Integer(1)), ("Job-Id", MVal::Integer(2)), ("JOB-ID", MVal::Integer(3)), ("printer-uri", MVal::Integer(4)), ("Printer-URI", MVal::Integer(5)), ("attributes-charset", MVal::Integer(6)), ("Attributes-Charset", MVal::Integer(7))])], vec![]));
    // empty collections as member values, at several depths and next to other members
    {
        let mut inner = BTreeMap::new();
        inner.insert("a".to_string(), MVal::Integer(1));
        inner.insert("b".to_string(), MVal::Coll(BTreeMap::new()));
        inner.insert("c".to_string(), MVal::Boolean(true));
        let mut outer = BTreeMap::new();
        outer.insert("x".to_string(), MVal::Coll(inner.clone()));
        outer.insert("y".to_string(), MVal::Coll(BTreeMap::new()));
        outer.insert("z".to_string(), MVal::Set(vec![MVal::Coll(BTreeMap::new()), MVal::Coll(inner.clone())]));
        out.push(msg1(vec![g(1, vec![("ec", MVal::Coll(inner))])], vec![]));
        out.push(msg1(vec![g(1, vec![("ec2", MVal::Coll(outer))])], vec![]));
    }
    // with-language values with an empty language / empty text
    for tag in [0x35u8, 0x36] {
        out.push(msg1(vec![g(1, vec![("wl", MVal::WithLang { tag, lang: String::new(), s: "text".into() })])], vec![]));
        out.push(msg1(vec![g(1, vec![("wl", MVal::WithLang { tag, lang: "en".into(), s: String::new() })])], vec![]));
        out.push(msg1(vec![g(1, vec![("wl", MVal::Set(vec![MVal::WithLang { tag, lang: String::new(), s: "a".into() }, MVal::Text { tag: 0x41, s: "b".into() }]))])], vec![]));
    }
    // out-of-band kinds with empty bodies, alone, in sets and as members
    for tag in [0x10u8, 0x12, 0x11, 0x15] {
        let v = MVal::Other { tag, data: vec![] };
        let mut c = BTreeMap::new();
        c.insert("m".to_string(), v.clone());
        out.push(msg1(vec![g(1, vec![("oob", v.clone()), ("oobset", MVal::Set(vec![v.clone(), MVal::NoValue, v.clone()])), ("oobcoll", MVal::Coll(c))])], vec![]));
    }
    // boundary lengths: names and values
    let mut r = Rng::new(0xB0D);
    for &n in &[1usize, 2, 255, 256, 32767, 65535] {
        let name = utf8_exact(&mut r, n);
        out.push(msg1(vec![g(1, vec![(name.as_str(), MVal::Integer(n as i32))])], vec![]));
    }
    for &n in &BOUNDARY_LENS {
        for &tag in &[0x30u8, 0x41, 0x44, 0x45] {
            let s = utf8_exact(&mut r, n);
            out.push(msg1(vec![g(1, vec![("v", MVal::Text { tag, s })])], vec![]));
        }
        out.push(msg1(vec![g(1, vec![("v", MVal::Other { tag: 0x39, data: r.bytes(n) })])], vec![]));
    }
    // the signed-16-bit boundary and a few "implementation constant" sizes, as names and as values
    for &n in &[127usize, 128, 1023, 1024, 4095, 4096, 4097, 8192, 16384, 32766, 32767, 32768, 65534] {
        let sv = utf8_exact(&mut r, n);
        out.push(msg1(vec![g(1, vec![("v", MVal::Text { tag: 0x30, s: sv.clone() })])], vec![]));
        out.push(msg1(vec![g(1, vec![]), g(4, vec![("k", MVal::Set(vec![MVal::Text { tag: 0x44, s: "a".into() }, MVal::Text { tag: 0x41, s: sv }]))])], vec![1, 2, 3]));
        if n <= 32768 {
            let name = utf8_exact(&mut r, n);
            out.push(msg1(vec![g(1, vec![(name.as_str(), MVal::Boolean(true))])], vec![]));
        }
        out.push(msg1(vec![g(1, vec![("o", MVal::Other { tag: 0x39, data: r.bytes(n) })])], vec![]));
    }
    for &l in &[0usize, 1, 255, 256, 65531] {
        let lang = utf8_exact(&mut r, l);
        let s = utf8_exact(&mut r, 65531 - l);
        out.push(msg1(vec![g(1, vec![("wl", MVal::WithLang { tag: 0x35, lang: lang.clone(), s: s.clone() })])], vec![]));
        out.push(msg1(vec![g(1, vec![("wl", MVal::WithLang { tag: 0x36, lang, s })])], vec![]));
    }
    out.push(msg1(vec![g(1, vec![("wl", MVal::WithLang { tag: 0x35, lang: String::new(), s: String::new() })])], vec![]));
    // payloads that look like IPP tags
    for p in [vec![0x03u8], vec![0x03, 0x03], vec![0x01, 0x21, 0, 1, b'a', 0, 4, 0, 0, 0, 1, 3], vec![0u8; 1], (0..=255u8).collect::<Vec<u8>>()] {
        out.push(msg1(vec![g(1, vec![a(1)]), g(2, vec![a(2)])], p));
    }
    // header extremes
    out.push(Model { version: 0xffff, code: 0xffff, id: 0xffff_ffff, groups: vec![g(1, vec![a(1)])], data: vec![] });
    out.push(Model { version: 0, code: 0, id: 0, groups: vec![g(1, vec![a(1)])], data: vec![] });
    // date-time dir over all octets
    for dir in [0u8, 0x7f, 0x80, 0xff, b'+', b'-'] {
        out.push(msg1(vec![g(1, vec![("dt", MVal::DateTime { year: 65535, month: 255, day: 0, hour: 0, minutes: 0, seconds: 0, deci: 0, dir, uh: 0, um: 0 })])], vec![]));
    }
    out
}

pub fn has_mixed_set(v: &MVal) -> bool {
    match v {
        MVal::Set(vs) => vs.iter().any(|x| x.kind() != vs[0].kind()) || vs.iter().any(has_mixed_set),
        MVal::Coll(m) => m.values().any(has_mixed_set),
        _ => false,
    }
}

pub fn has_multi_member(v: &MVal) -> bool {
    match v {
        MVal::Set(vs) => vs.iter().any(has_multi_member),
        MVal::Coll(m) => m.values().any(|x| matches!(x, MVal::Set(_)) || has_multi_member(x)),
        _ => false,
    }
}

fn max_len(v: &MVal) -> usize {
    match v {
        MVal::Text { s, .. } => s.len(),
        MVal::WithLang { lang, s, .. } => lang.len() + s.len() + 4,
        MVal::Other { data, .. } => data.len(),
        MVal::Set(vs) => vs.iter().map(max_len).max().unwrap_or(0),
        MVal::Coll(m) => m.iter().map(|(k, v)| k.len().max(max_len(v))).max().unwrap_or(0),
        _ => 0,
    }
}

pub struct Traits {
    pub mixed_set: bool,
    pub multi_member: bool,
    pub depth: usize,
    pub boundary: bool,
    pub groups: usize,
    pub payload: usize,
}

pub fn traits(m: &Model) -> Traits {
    let vals = || m.groups.iter().flat_map(|g| g.attrs.iter());
    let is_b = |n: usize| n == 255 || n == 256 || n >= 32767;
    Traits {
        mixed_set: vals().any(|(_, v)| has_mixed_set(v)),
        multi_member: vals().any(|(_, v)| has_multi_member(v)),
        depth: vals().map(|(_, v)| v.depth()).max().unwrap_or(0),
        boundary: vals().any(|(k, v)| is_b(k.len()) || is_b(max_len(v))),
        groups: m.groups.len(),
        payload: m.data.len(),
    }
}

impl Traits {
    pub fn nontrivial(&self) -> bool {
        self.mixed_set || self.multi_member || self.depth >= 2 || self.boundary || self.groups >= 3 || self.payload > 0
    }
}

pub fn visit_kinds(v: &MVal, f: &mut dyn FnMut(usize)) {
    f(v.kind());
    match v {
        MVal::Set(vs) => vs.iter().for_each(|x| visit_kinds(x, f)),
        MVal::Coll(m) => m.values().for_each(|x| visit_kinds(x, f)),
        _ => {}
    }
}

// ---------------------------------------------------------------- G2 wire trees

pub fn gen_body(rng: &mut Rng, tag: u8, big: bool) -> Vec<u8> {
    match tag {
        0x10 | 0x12 | 0x13 => vec![],
        0x21 | 0x23 => rng.i32().to_be_bytes().to_vec(),
        0x22 => vec![rng.below(2) as u8],
        0x31 => rng.bytes(11),
        0x32 => rng.bytes(9),
        0x33 => rng.bytes(8),
        0x35 | 0x36 => {
            let a = text_bytes(rng, false);
            let b = text_bytes(rng, false);
            let mut v = (a.len() as u16).to_be_bytes().to_vec();
            v.extend_from_slice(&a);
            v.extend_from_slice(&(b.len() as u16).to_be_bytes());
            v.extend_from_slice(&b);
            v
        }
        _ => text_bytes(rng, big),
    }
}

/// octets for text-like bodies: valid UTF-8, Latin-1, or arbitrary bytes
fn text_bytes(rng: &mut Rng, big: bool) -> Vec<u8> {
    let n = str_len(rng, big).min(if big { 65535 } else { 400 });
    match rng.below(4) {
        0 | 1 => utf8_exact(rng, n).into_bytes(),
        2 => (0..n).map(|_| *rng.pick(&[0xe9u8, 0xfc, 0xdf, b'a', b'b', b' ', 0xa0, 0xc0])).collect(),
        _ => rng.bytes(n),
    }
}

fn wire_scalar(rng: &mut Rng, in_coll: bool, big: bool) -> WVal {
    loop {
        let tag = match rng.below(3) {
            0 => rng.range(0x10, 0x4a) as u8,
            _ => *rng.pick(&[0x21u8, 0x22, 0x23, 0x30, 0x31, 0x32, 0x33, 0x35, 0x36, 0x41, 0x42, 0x44, 0x45, 0x46, 0x47, 0x48, 0x49, 0x13, 0x12, 0x10]),
        };
        if tag == 0x34 || tag == 0x37 || (in_coll && tag == 0x4a) {
            continue;
        }
        return WVal::Scalar { tag, body: gen_body(rng, tag, big) };
    }
}

fn wire_values(rng: &mut Rng, depth: usize, in_coll: bool, big: bool) -> Vec<WVal> {
    let n = match rng.below(100) {
        0..=59 => 1,
        60..=89 => rng.range(2, 4),
        99 if !in_coll => rng.range(100, 400), // wide set of scalars
        _ => rng.range(2, 9),
    };
    (0..n)
        .map(|_| {
            if n <= 12 && depth > 0 && rng.chance(1, 4) {
                wire_coll(rng, depth - 1, big)
            } else {
                wire_scalar(rng, in_coll, big)
            }
        })
        .collect()
}

fn wire_coll(rng: &mut Rng, depth: usize, big: bool) -> WVal {
    let n = match rng.below(8) {
        0 => 0,
        _ => rng.range(1, 4),
    };
    let mut members: Vec<WAttr> = vec![];
    for _ in 0..n {
        let name = if rng.chance(1, 20) && !members.iter().any(|m| m.name.is_empty()) {
            vec![]
        } else {
            let mm = &members;
            gen_name(rng, false, &|s: &str| mm.iter().any(|m| m.name == s.as_bytes())).into_bytes()
        };
        members.push(WAttr { name, values: wire_values(rng, depth, true, big) });
    }
    WVal::Coll(members)
}

pub fn gen_wire(rng: &mut Rng, big: bool) -> WMsg {
    let (version, code, id) = gen_header(rng);
    let ngroups = match rng.below(10) {
        0 => 0,
        1..=5 => rng.range(1, 2),
        _ => rng.range(1, 6),
    };
    let mut groups = vec![];
    let mut big_left = if big { 1 } else { 0 };
    for gi in 0..ngroups {
        // messages need not start with the operation group
        let tag = if gi == 0 && rng.chance(3, 4) { 1 } else { *rng.pick(&[1u8, 2, 4, 5]) };
        let nattrs = match rng.below(10) {
            0..=1 => 0,
            2..=7 => rng.range(1, 3),
            _ => rng.range(1, 7),
        };
        let mut attrs: Vec<WAttr> = vec![];
        for _ in 0..nattrs {
            let ub = big_left > 0 && rng.chance(1, 4);
            if ub {
                big_left -= 1;
            }
            let name = {
                let a = &attrs;
                gen_name(rng, ub, &|s: &str| a.iter().any(|x| x.name == s.as_bytes())).into_bytes()
            };
            let depth = match rng.below(10) {
                0..=5 => rng.range(0, 1),
                _ => rng.range(0, 5),
            };
            attrs.push(WAttr { name, values: wire_values(rng, depth, false, ub) });
        }
        groups.push(WGroup { tag, attrs });
    }
    WMsg { version, code, id, groups, data: gen_payload(rng, false) }
}

// ---------------------------------------------------------------- G3 tokens

/// the 16-token alphabet of C02/C04/C05
pub const TOKENS: [&[u8]; 16] = [
    &[0x01],                                        // operation group
    &[0x02],                                        // job group
    &[0x04],                                        // printer group
    &[0x05],                                        // unsupported group
    &[0x03],                                        // end tag
    &[0x21, 0, 1, b'a', 0, 4, 0, 0, 0, 1],          // named integer
    &[0x44, 0, 0, 0, 1, b'k'],                      // additional value (keyword)
    &[0x34, 0, 1, b'c', 0, 0],                      // begin collection, named
    &[0x34, 0, 0, 0, 0],                            // begin collection, unnamed
    &[0x37, 0, 0, 0, 0],                            // end collection
    &[0x37, 0, 1, b'e', 0, 0],                      // end collection, named
    &[0x4a, 0, 0, 0, 1, b'm'],                      // member name
    &[0x21, 0, 1, b's', 0, 2, 0, 1],                // short integer (2-byte body)
    &[0x00],                                        // reserved delimiter 0x00
    &[0x0f],                                        // reserved delimiter 0x0f
    &[0x4b],                                        // byte just outside the value range
];
pub const TOKEN_NAMES: [&str; 16] =
    ["G1", "G2", "G4", "G5", "END", "INT(a)", "+KW", "BEG(c)", "BEG", "ENDC", "ENDC(e)", "MEMB", "SHORTINT", "T00", "T0F", "T4B"];

pub const HDR: [u8; 8] = [1, 1, 0, 0, 0, 0, 0, 1];

/// message = valid header + tokens of the index sequence `seq`
pub fn token_msg(seq: &[usize]) -> Vec<u8> {
    let mut v = HDR.to_vec();
    for &i in seq {
        v.extend_from_slice(TOKENS[i]);
    }
    v
}

/// enumerate all sequences of length 0..=k over n symbols, calling f
pub fn for_all_seqs(n: usize, k: usize, f: &mut dyn FnMut(&[usize])) {
    for len in 0..=k {
        let total = (n as u64).pow(len as u32);
        for i in 0..total {
            f(&seq_of(i, n, len));
        }
    }
}

/// the i-th sequence of exactly `len` symbols over base n
pub fn seq_of(mut i: u64, n: usize, len: usize) -> Vec<usize> {
    let mut v = vec![0; len];
    for p in (0..len).rev() {
        v[p] = (i % n as u64) as usize;
        i /= n as u64;
    }
    v
}

/// split a (possibly well-formed) message into header + tokens (delimiters and TNV triples); best effort
pub fn tokenize(b: &[u8]) -> Vec<(usize, usize)> {
    let mut out = vec![];
    if b.len() < 8 {
        return out;
    }
    out.push((0, 8));
    let mut p = 8;
    while p < b.len() {
        let t = b[p];
        if t <= 0x0f {
            out.push((p, p + 1));
            p += 1;
            if t == 3 {
                break;
            }
            continue;
        }
        if p + 3 > b.len() {
            break;
        }
        let nl = u16::from_be_bytes([b[p + 1], b[p + 2]]) as usize;
        let q = p + 3 + nl;
        if q + 2 > b.len() {
            break;
        }
        let vl = u16::from_be_bytes([b[q], b[q + 1]]) as usize;
        let e = q + 2 + vl;
        if e > b.len() {
            break;
        }
        out.push((p, e));
        p = e;
    }
    if p < b.len() {
        out.push((p, b.len()));
    }
    out
}

pub const MUTATION_NAMES: [&str; 12] = [
    "len+1", "len-1", "len=0", "len=max", "truncate", "tok-delete", "tok-dup", "tok-splice", "tag-subst", "byte-flip", "insert-byte", "len-random",
];

/// grammar-aware mutation of a message; returns (mutant, mutation index)
pub fn mutate(rng: &mut Rng, base: &[u8], other: &[u8]) -> (Vec<u8>, usize) {
    let toks = tokenize(base);
    let mut v = base.to_vec();
    let which = rng.below(12) as usize;
    // positions of length fields: for each TNV token, name-length at +1, value-length after the name
    let mut len_pos: Vec<usize> = vec![];
    for &(s, e) in toks.iter().skip(1) {
        if e - s >= 5 && base[s] > 0x0f {
            len_pos.push(s + 1);
            let nl = u16::from_be_bytes([base[s + 1], base[s + 2]]) as usize;
            if s + 3 + nl + 2 <= e {
                len_pos.push(s + 3 + nl);
            }
        }
    }
    let set_len = |v: &mut Vec<u8>, p: usize, f: &dyn Fn(u16) -> u16| {
        let cur = u16::from_be_bytes([v[p], v[p + 1]]);
        let n = f(cur).to_be_bytes();
        v[p] = n[0];
        v[p + 1] = n[1];
    };
    match which {
        0 | 1 | 2 | 3 | 11 if !len_pos.is_empty() => {
            let p = *rng.pick(&len_pos);
            let r = rng.next() as u16;
            match which {
                0 => set_len(&mut v, p, &|c| c.wrapping_add(1)),
                1 => set_len(&mut v, p, &|c| c.wrapping_sub(1)),
                2 => set_len(&mut v, p, &|_| 0),
                3 => set_len(&mut v, p, &|_| 0xffff),
                _ => set_len(&mut v, p, &|_| r),
            }
        }
        4 => {
            let n = rng.below(v.len() as u64 + 1) as usize;
            v.truncate(n);
        }
        5 if toks.len() > 1 => {
            let (s, e) = toks[rng.range(1, toks.len() - 1)];
            v.drain(s..e);
        }
        6 if toks.len() > 1 => {
            let (s, e) = toks[rng.range(1, toks.len() - 1)];
            let t = base[s..e].to_vec();
            let at = toks[rng.range(1, toks.len() - 1)].0;
            v.splice(at..at, t);
        }
        7 if toks.len() > 1 => {
            let ot = tokenize(other);
            if ot.len() > 1 {
                let (s, e) = ot[rng.range(1, ot.len() - 1)];
                let at = toks[rng.range(1, toks.len() - 1)].0;
                v.splice(at..at, other[s..e].to_vec());
            }
        }
        8 if toks.len() > 1 => {
            let (s, _) = toks[rng.range(1, toks.len() - 1)];
            v[s] = match rng.below(4) {
                0 => rng.u8(),
                1 => *rng.pick(&[0x34u8, 0x37, 0x4a, 0x03, 0x01, 0x00, 0x0f, 0x4b, 0xff, 0x7f]),
                _ => rng.range(0x10, 0x4a) as u8,
            };
        }
        10 => {
            let at = rng.below(v.len() as u64 + 1) as usize;
            v.insert(at, rng.u8());
        }
        _ => {
            if !v.is_empty() {
                let at = rng.below(v.len() as u64) as usize;
                v[at] ^= 1 << rng.below(8);
            }
        }
    }
    (v, which)
}

// ---------------------------------------------------------------- bombs / families

pub fn tnv(out: &mut Vec<u8>, tag: u8, name: &[u8], val: &[u8]) {
    out.push(tag);
    out.extend_from_slice(&(name.len() as u16).to_be_bytes());
    out.extend_from_slice(name);
    out.extend_from_slice(&(val.len() as u16).to_be_bytes());
    out.extend_from_slice(val);
}

pub const FAMILIES: [&str; 34] = [
    "nest", "nest-noname", "set-width", "attr-count", "group-count", "member-count", "value-len", "name-len", "unterminated", "endcoll-flood",
    "member-flood", "addl-no-attr", "coll-set", "nest-multi", "name-invalid-utf8", "value-invalid-utf8", "member-count-desc", "member-count-shuffled",
    "attr-count-desc", "wide-then-many", "set-width-mixed", "member-width-mixed", "set-width-strings", "attr-same-name", "attr-few-names",
    "set-width-novalue", "member-same-name", "value-len-text", "value-len-keyword", "value-len-withlang", "groups-late-op",
    "attr-count-caps", "attr-count-charset", "member-count-caps",
];

/// input family `fam` with about `n` bytes of attribute data
pub fn family(fam: &str, n: usize) -> Vec<u8> {
    let mut v = HDR.to_vec();
    v.push(0x01);
    match fam {
        // nested collections with member names: BEG(c) [MEMB BEG]* ... ENDC*   (11 bytes / level + 5)
        "nest" => {
            let d = (n / 16).max(1);
            tnv(&mut v, 0x34, b"c", b"");
            for _ in 1..d {
                tnv(&mut v, 0x4a, b"", b"m");
                tnv(&mut v, 0x34, b"", b"");
            }
            tnv(&mut v, 0x4a, b"", b"m");
            tnv(&mut v, 0x21, b"", &[0, 0, 0, 1]);
            for _ in 0..d {
                tnv(&mut v, 0x37, b"", b"");
            }
        }
        // nested collections without member names (values silently unpaired)
        "nest-noname" => {
            let d = (n / 10).max(1);
            tnv(&mut v, 0x34, b"c", b"");
            for _ in 1..d {
                tnv(&mut v, 0x34, b"", b"");
            }
            for _ in 0..d {
                tnv(&mut v, 0x37, b"", b"");
            }
        }
        // each level holds a 2-valued member: [MEMB INT BEG ...]
        "nest-multi" => {
            let d = (n / 25).max(1);
            tnv(&mut v, 0x34, b"c", b"");
            for _ in 1..d {
                tnv(&mut v, 0x4a, b"", b"m");
                tnv(&mut v, 0x21, b"", &[0, 0, 0, 2]);
                tnv(&mut v, 0x34, b"", b"");
            }
            for _ in 0..d {
                tnv(&mut v, 0x37, b"", b"");
            }
        }
        "set-width" => {
            tnv(&mut v, 0x21, b"s", &[0, 0, 0, 0]);
            for i in 0..(n / 9) {
                tnv(&mut v, 0x21, b"", &(i as u32).to_be_bytes());
            }
        }
        // one wide set whose values carry many different tags (keyword first, then integers, enums, booleans, out-of-band, octets, text ...)
        "set-width-mixed" | "member-width-mixed" => {
            let tags: [(u8, &[u8]); 8] = [(0x21, &[0, 0, 0, 7]), (0x23, &[0, 0, 0, 3]), (0x22, &[1]), (0x13, &[]), (0x30, &[1, 2, 3]), (0x41, b"txt"), (0x44, b"kw"), (0x33, &[0, 0, 0, 1, 0, 0, 0, 2])];
            if fam == "member-width-mixed" {
                tnv(&mut v, 0x34, b"c", b"");
                tnv(&mut v, 0x4a, b"", b"m");
                tnv(&mut v, 0x44, b"", b"first");
            } else {
                tnv(&mut v, 0x44, b"s", b"first");
            }
            let mut used = 0;
            let mut i = 0;
            while used < n {
                let (t, body) = tags[i % tags.len()];
                tnv(&mut v, t, b"", body);
                used += 5 + body.len();
                i += 1;
            }
            if fam == "member-width-mixed" {
                tnv(&mut v, 0x37, b"", b"");
            }
        }
        // very many attributes sharing one name / cycling through three names (repeated names are well-formed wire input)
        "attr-same-name" | "attr-few-names" => {
            for i in 0..(n / 17) {
                let name = if fam == "attr-same-name" { "samename".to_string() } else { format!("name{:04}", i % 3) };
                tnv(&mut v, 0x21, name.as_bytes(), &(i as u32).to_be_bytes());
            }
        }
        // a wide set that starts with thousands of out-of-band no-value entries, integers behind them
        "set-width-novalue" => {
            tnv(&mut v, 0x13, b"s", b"");
            let k = n / 5;
            for i in 0..k {
                if i < k * 3 / 4 {
                    tnv(&mut v, 0x13, b"", b"");
                } else {
                    tnv(&mut v, 0x21, b"", &[0, 0, 0, 1]);
                }
            }
        }
        // one collection whose members all carry the same name
        "member-same-name" => {
            tnv(&mut v, 0x34, b"c", b"");
            for i in 0..(n / 23) {
                tnv(&mut v, 0x4a, b"", b"samename");
                tnv(&mut v, 0x21, b"", &(i as u32).to_be_bytes());
            }
            tnv(&mut v, 0x37, b"", b"");
        }
        "set-width-strings" => {
            tnv(&mut v, 0x44, b"s", b"k");
            for i in 0..(n / 13) {
                tnv(&mut v, 0x44, b"", format!("kw{i:06}").as_bytes());
            }
        }
        "coll-set" => {
            // 1setOf collection, each with one member
            tnv(&mut v, 0x34, b"s", b"");
            tnv(&mut v, 0x4a, b"", b"m");
            tnv(&mut v, 0x21, b"", &[0, 0, 0, 0]);
            tnv(&mut v, 0x37, b"", b"");
            for _ in 0..(n / 25) {
                tnv(&mut v, 0x34, b"", b"");
                tnv(&mut v, 0x4a, b"", b"m");
                tnv(&mut v, 0x21, b"", &[0, 0, 0, 0]);
                tnv(&mut v, 0x37, b"", b"");
            }
        }
        "attr-count" => {
            for i in 0..(n / 17) {
                let name = format!("a{i:07}");
                tnv(&mut v, 0x21, name.as_bytes(), &[0, 0, 0, 1]);
            }
        }
        // many attributes whose names are not the usual lower-case keywords: ASCII capitals in every name / names cycling through
        // capitals, digits first, '_', '.', non-ASCII letters and a lossy (invalid UTF-8) octet - code that treats names by content
        // (case folding, normalisation, validation with a slow path) must stay linear on them too
        "attr-count-caps" | "attr-count-charset" => {
            for i in 0..(n / 18) {
                let mut name: Vec<u8> = if fam == "attr-count-caps" {
                    format!("X-Attr{i:07}").into_bytes()
                } else {
                    let pre: &[u8] = [&b"Zq"[..], b"9.", b"_x", "\u{e9}".as_bytes(), b"\xff", b"a-", "\u{4e2d}".as_bytes(), b"~ "][i % 8];
                    let mut v = pre.to_vec();
                    v.extend_from_slice(format!("{i:07}").as_bytes());
                    v
                };
                if i % 5 == 0 {
                    name.push(b'Q');
                }
                tnv(&mut v, 0x21, &name, &[0, 0, 0, 1]);
            }
        }
        "member-count-caps" => {
            tnv(&mut v, 0x34, b"c", b"");
            for i in 0..(n / 26) {
                let name = format!("Mem-{i:07}");
                tnv(&mut v, 0x4a, b"", name.as_bytes());
                tnv(&mut v, 0x21, b"", &[0, 0, 0, 1]);
            }
            tnv(&mut v, 0x37, b"", b"");
        }
        "group-count" => {
            for i in 0..(n / 2) {
                v.push([1u8, 2, 4, 5][i % 4]);
            }
        }
        "member-count" => {
            tnv(&mut v, 0x34, b"c", b"");
            for i in 0..(n / 23) {
                let name = format!("m{i:07}");
                tnv(&mut v, 0x4a, b"", name.as_bytes());
                tnv(&mut v, 0x21, b"", &[0, 0, 0, 1]);
            }
            tnv(&mut v, 0x37, b"", b"");
        }
        "value-len" => {
            let mut left = n;
            let mut i = 0;
            while left > 0 {
                let k = left.min(65535);
                let name = format!("v{i}");
                tnv(&mut v, 0x30, name.as_bytes(), &vec![b'x'; k]);
                left -= k;
                i += 1;
            }
        }
        // long values of the other string syntaxes (text with non-ASCII content, keyword, text-with-language)
        "value-len-text" | "value-len-keyword" | "value-len-withlang" => {
            let mut left = n;
            let mut i = 0;
            while left > 0 {
                let k = left.min(65000);
                let name = format!("v{i}");
                let body: Vec<u8> = match fam {
                    // whole characters only (valid UTF-8 at every size), padded with ASCII
                    "value-len-text" => {
                        let mut b: Vec<u8> = "x\u{e9}".bytes().cycle().take(k - k % 3).collect();
                        b.resize(k, b'x');
                        b
                    }
                    "value-len-keyword" => b"kw-".iter().copied().cycle().take(k).collect(),
                    _ => {
                        let mut b = vec![0, 2, b'e', b'n'];
                        b.extend_from_slice(&((k.saturating_sub(6)) as u16).to_be_bytes());
                        b.extend(std::iter::repeat(b't').take(k.saturating_sub(6)));
                        b
                    }
                };
                let tag = match fam {
                    "value-len-text" => 0x41,
                    "value-len-keyword" => 0x44,
                    _ => 0x35,
                };
                tnv(&mut v, tag, name.as_bytes(), &body);
                left -= k;
                i += 1;
            }
        }
        // a long run of other groups, then as many operation-attributes delimiters (work per delimiter that looks for an earlier group)
        "groups-late-op" => {
            v.truncate(HDR.len()); // no leading operation group: the first one comes behind the run of other groups
            for _ in 0..(n / 2) {
                v.push(0x02);
            }
            for _ in 0..(n / 2) {
                v.push(0x01);
            }
        }
        "name-len" => {
            let mut left = n;
            let mut i = 0u32;
            while left > 0 {
                let k = left.min(65535).max(8);
                let mut name = format!("{i:08}").into_bytes();
                name.resize(k, b'n');
                tnv(&mut v, 0x13, &name, b"");
                left = left.saturating_sub(k);
                i += 1;
            }
        }
        // names / values made entirely of invalid UTF-8 (each byte becomes a replacement character)
        "name-invalid-utf8" | "value-invalid-utf8" => {
            let mut left = n;
            let mut i = 0u32;
            while left > 0 {
                let k = left.min(65535).max(8);
                let mut blob = vec![0xffu8; k];
                // keep names distinct
                let tagbytes = format!("{i:06}").into_bytes();
                blob[..6].copy_from_slice(&tagbytes);
                if fam == "name-invalid-utf8" {
                    tnv(&mut v, 0x13, &blob, b"");
                } else {
                    let name = format!("v{i}");
                    tnv(&mut v, 0x41, name.as_bytes(), &blob);
                }
                left = left.saturating_sub(k);
                i += 1;
            }
        }
        // one flat collection whose member names arrive in descending / shuffled order
        "member-count-desc" | "member-count-shuffled" => {
            tnv(&mut v, 0x34, b"c", b"");
            let m = n / 23;
            for i in 0..m {
                let k = if fam == "member-count-desc" { m - 1 - i } else { (i.wrapping_mul(7919) + 13) % m.max(1) };
                let name = format!("m{k:07}");
                tnv(&mut v, 0x4a, b"", name.as_bytes());
                tnv(&mut v, 0x21, b"", &[0, 0, 0, 1]);
            }
            tnv(&mut v, 0x37, b"", b"");
        }
        // one wide collection first, then many small collections (state carried from one collection to the next)
        "wide-then-many" => {
            tnv(&mut v, 0x34, b"w", b"");
            for i in 0..(n / 2 / 23) {
                let name = format!("m{i:07}");
                tnv(&mut v, 0x4a, b"", name.as_bytes());
                tnv(&mut v, 0x21, b"", &[0, 0, 0, 1]);
            }
            tnv(&mut v, 0x37, b"", b"");
            for i in 0..(n / 2 / 30) {
                let name = format!("s{i:07}");
                tnv(&mut v, 0x34, name.as_bytes(), b"");
                tnv(&mut v, 0x4a, b"", b"m");
                tnv(&mut v, 0x21, b"", &[0, 0, 0, 1]);
                tnv(&mut v, 0x37, b"", b"");
            }
        }
        "attr-count-desc" => {
            let m = n / 17;
            for i in 0..m {
                let name = format!("a{:07}", m - 1 - i);
                tnv(&mut v, 0x21, name.as_bytes(), &[0, 0, 0, 1]);
            }
        }
        // malformed variants
        "unterminated" => {
            tnv(&mut v, 0x34, b"c", b"");
            for _ in 0..(n / 16) {
                tnv(&mut v, 0x4a, b"", b"m");
                tnv(&mut v, 0x34, b"", b"");
            }
        }
        "endcoll-flood" => {
            tnv(&mut v, 0x21, b"a", &[0, 0, 0, 1]);
            for _ in 0..(n / 5) {
                tnv(&mut v, 0x37, b"", b"");
            }
        }
        "member-flood" => {
            tnv(&mut v, 0x34, b"c", b"");
            for _ in 0..(n / 6) {
                tnv(&mut v, 0x4a, b"", b"m");
            }
            tnv(&mut v, 0x37, b"", b"");
        }
        "addl-no-attr" => {
            for _ in 0..(n / 9) {
                tnv(&mut v, 0x21, b"", &[0, 0, 0, 1]);
            }
        }
        _ => panic!("unknown family {fam}"),
    }
    v.push(0x03);
    v
}
