//! Scripted `Read` / `AsyncRead` sources with a call log, and a manual executor
//! that turns "hang" into logical-step verdicts (deadlock / busy loop).

use futures_util::io::AsyncRead;
use std::future::Future;
use std::io::{self, ErrorKind, Read};
use std::pin::Pin;
use std::sync::atomic::{AtomicBool, AtomicU64, Ordering};
use std::sync::{Arc, Mutex};
use std::task::{Context, Poll, Wake, Waker};

/// reads past EOF tolerated before a loop is declared non-terminating
pub const EOF_READ_LIMIT: u64 = 1000;

#[derive(Clone, Debug, PartialEq, Eq)]
pub enum Step {
    /// deliver at most this many bytes on the next call
    Chunk(usize),
    /// blocking: return ErrorKind::Interrupted once
    Interrupted,
    /// async: return Pending once; wake immediately or park the waker for a deferred wake
    Pending { deferred: bool },
}

#[derive(Clone, Debug)]
pub enum Fallback {
    /// honour the full requested size
    Full,
    Chunk(usize),
}

#[derive(Clone, Debug)]
pub struct Plan {
    pub steps: Vec<Step>,
    pub fallback: Fallback,
    /// fail with this kind when the read position reaches this offset
    pub fail_at: Option<(usize, ErrorKind)>,
    /// the scripted steps apply only once the read position has reached this offset (before it: fallback)
    pub steps_start: usize,
    /// transient fault: fail once at that offset, then carry on delivering (false = the source keeps failing)
    pub fail_once: bool,
    /// deferred wakes are fired by a helper thread (needed under block_on bridges)
    pub thread_wake: bool,
}

impl Plan {
    pub fn full() -> Plan {
        Plan { steps: vec![], fallback: Fallback::Full, fail_at: None, steps_start: 0, fail_once: false, thread_wake: false }
    }
    pub fn chunk(k: usize) -> Plan {
        Plan { steps: vec![], fallback: Fallback::Chunk(k.max(1)), fail_at: None, steps_start: 0, fail_once: false, thread_wake: false }
    }
    pub fn steps(steps: Vec<Step>) -> Plan {
        Plan { steps, fallback: Fallback::Full, fail_at: None, steps_start: 0, fail_once: false, thread_wake: false }
    }
}

#[derive(Default, Debug)]
pub struct Log {
    pub pos: usize,
    pub calls: u64,
    pub zero_len_calls: u64,
    pub interrupted: u64,
    pub pendings: u64,
    pub deferred: u64,
    pub errors: u64,
    pub reads_after_eof: u64,
    pub max_request: usize,
    pub step_idx: usize,
    pub faults_fired: u64,
    pub vectored_reads: u64,
    /// wake-ups issued by helper threads (thread_wake plans) and the polls seen since the last of them
    pub wakes_issued: u64,
    pub polls_since_wake: u64,
    pub last_wake: Option<std::time::Instant>,
    pub parked: Option<Waker>,
    /// (offset, requested, delivered) for the first calls, for witnesses
    pub trace: Vec<(usize, usize, isize)>,
}

#[derive(Clone)]
pub struct Shared(pub Arc<Mutex<Log>>);

impl Shared {
    pub fn pos(&self) -> usize {
        self.0.lock().unwrap().pos
    }
    pub fn take_parked(&self) -> Option<Waker> {
        self.0.lock().unwrap().parked.take()
    }
    /// (wake-ups issued by helper threads, polls seen since the last one, seconds since the last one)
    pub fn wake_state(&self) -> (u64, u64, f64) {
        let l = self.0.lock().unwrap();
        (l.wakes_issued, l.polls_since_wake, l.last_wake.map(|t| t.elapsed().as_secs_f64()).unwrap_or(0.0))
    }
    pub fn snapshot(&self) -> (usize, u64, u64, u64, u64, u64) {
        let l = self.0.lock().unwrap();
        (l.pos, l.calls, l.interrupted, l.pendings, l.deferred, l.reads_after_eof)
    }
}

pub struct Scripted {
    data: Arc<Vec<u8>>,
    plan: Plan,
    pub shared: Shared,
}

enum Next {
    Deliver(usize),
    Interrupted,
    Pending(bool),
    Fail(ErrorKind),
}

impl Scripted {
    pub fn new(data: Arc<Vec<u8>>, plan: Plan) -> (Scripted, Shared) {
        let shared = Shared(Arc::new(Mutex::new(Log::default())));
        (Scripted { data, plan, shared: shared.clone() }, shared)
    }

    fn next(&mut self, want: usize, is_async: bool) -> Next {
        let mut l = self.shared.0.lock().unwrap();
        l.calls += 1;
        l.polls_since_wake += 1;
        if want > l.max_request {
            l.max_request = want;
        }
        if want == 0 {
            l.zero_len_calls += 1;
            return Next::Deliver(0);
        }
        let fault_armed = !(self.plan.fail_once && l.faults_fired > 0);
        if let Some((off, kind)) = self.plan.fail_at {
            if l.pos >= off && fault_armed {
                l.errors += 1;
                l.faults_fired += 1;
                return Next::Fail(kind);
            }
        }
        let left = self.data.len() - l.pos;
        if left == 0 {
            l.reads_after_eof += 1;
            // escape hatch for read loops that ignore end-of-stream: after EOF_READ_LIMIT zero-length deliveries the source
            // starts failing, after ten times that it panics; the monitors then report the loop (reads_after_eof > limit)
            if l.reads_after_eof > 10 * EOF_READ_LIMIT {
                drop(l);
                panic!("verif: the source was read more than {} times after end-of-stream", 10 * EOF_READ_LIMIT);
            }
            if l.reads_after_eof > EOF_READ_LIMIT {
                return Next::Fail(ErrorKind::Other);
            }
            return Next::Deliver(0);
        }
        // consume script steps that do not apply to this flavour
        let mut cap = match self.plan.fallback {
            Fallback::Full => want,
            Fallback::Chunk(k) => k,
        };
        while l.step_idx < self.plan.steps.len() && l.pos >= self.plan.steps_start {
            let s = self.plan.steps[l.step_idx].clone();
            l.step_idx += 1;
            match s {
                Step::Chunk(k) => {
                    cap = k.max(1);
                    break;
                }
                Step::Interrupted => {
                    if !is_async {
                        l.interrupted += 1;
                        return Next::Interrupted;
                    }
                }
                Step::Pending { deferred } => {
                    if is_async {
                        l.pendings += 1;
                        if deferred {
                            l.deferred += 1;
                        }
                        return Next::Pending(deferred);
                    }
                }
            }
        }
        let mut n = want.min(cap).min(left);
        if let Some((off, _)) = self.plan.fail_at {
            if fault_armed {
                n = n.min(off - l.pos);
            }
        }
        let n = n.max(1).min(left);
        Next::Deliver(n)
    }

    fn deliver(&mut self, buf: &mut [u8], n: usize) -> usize {
        let mut l = self.shared.0.lock().unwrap();
        let p = l.pos;
        buf[..n].copy_from_slice(&self.data[p..p + n]);
        l.pos += n;
        if l.trace.len() < 64 {
            let req = buf.len();
            l.trace.push((p, req, n as isize));
        }
        n
    }
}

impl Read for Scripted {
    fn read(&mut self, buf: &mut [u8]) -> io::Result<usize> {
        match self.next(buf.len(), false) {
            Next::Deliver(0) => Ok(0),
            Next::Deliver(n) => Ok(self.deliver(buf, n)),
            Next::Interrupted => Err(io::Error::new(ErrorKind::Interrupted, "scripted interrupt")),
            Next::Fail(k) => Err(io::Error::new(k, "scripted fault")),
            Next::Pending(_) => unreachable!(),
        }
    }
    /// native vectored read (as sockets, files and BufReader have): one scripted step fills the buffers in order,
    /// so a fragment boundary can fall anywhere inside any of them
    fn read_vectored(&mut self, bufs: &mut [io::IoSliceMut<'_>]) -> io::Result<usize> {
        let want: usize = bufs.iter().map(|b| b.len()).sum();
        if want == 0 {
            return Ok(0);
        }
        match self.next(want, false) {
            Next::Deliver(0) => Ok(0),
            Next::Deliver(n) => Ok(self.deliver_vectored(bufs, n)),
            Next::Interrupted => Err(io::Error::new(ErrorKind::Interrupted, "scripted interrupt")),
            Next::Fail(k) => Err(io::Error::new(k, "scripted fault")),
            Next::Pending(_) => unreachable!(),
        }
    }
}

impl Scripted {
    fn deliver_vectored(&mut self, bufs: &mut [io::IoSliceMut<'_>], n: usize) -> usize {
        let mut l = self.shared.0.lock().unwrap();
        let p = l.pos;
        let mut done = 0;
        for b in bufs.iter_mut() {
            if done == n {
                break;
            }
            let k = b.len().min(n - done);
            b[..k].copy_from_slice(&self.data[p + done..p + done + k]);
            done += k;
        }
        l.pos += n;
        l.vectored_reads += 1;
        if l.trace.len() < 64 {
            let req: usize = bufs.iter().map(|b| b.len()).sum();
            l.trace.push((p, req, n as isize));
        }
        n
    }
}

impl AsyncRead for Scripted {
    fn poll_read(mut self: Pin<&mut Self>, cx: &mut Context<'_>, buf: &mut [u8]) -> Poll<io::Result<usize>> {
        match self.next(buf.len(), true) {
            Next::Deliver(0) => Poll::Ready(Ok(0)),
            Next::Deliver(n) => Poll::Ready(Ok(self.deliver(buf, n))),
            Next::Fail(k) => Poll::Ready(Err(io::Error::new(k, "scripted fault"))),
            Next::Pending(deferred) => {
                if !deferred {
                    cx.waker().wake_by_ref();
                } else if self.plan.thread_wake {
                    let w = cx.waker().clone();
                    let sh = self.shared.clone();
                    std::thread::spawn(move || {
                        std::thread::yield_now();
                        {
                            let mut l = sh.0.lock().unwrap();
                            l.wakes_issued += 1;
                            l.polls_since_wake = 0;
                            l.last_wake = Some(std::time::Instant::now());
                        }
                        w.wake();
                    });
                } else {
                    self.shared.0.lock().unwrap().parked = Some(cx.waker().clone());
                }
                Poll::Pending
            }
            Next::Interrupted => unreachable!(),
        }
    }
    fn poll_read_vectored(mut self: Pin<&mut Self>, cx: &mut Context<'_>, bufs: &mut [io::IoSliceMut<'_>]) -> Poll<io::Result<usize>> {
        let want: usize = bufs.iter().map(|b| b.len()).sum();
        if want == 0 {
            return Poll::Ready(Ok(0));
        }
        match self.next(want, true) {
            Next::Deliver(0) => Poll::Ready(Ok(0)),
            Next::Deliver(n) => Poll::Ready(Ok(self.deliver_vectored(bufs, n))),
            Next::Fail(k) => Poll::Ready(Err(io::Error::new(k, "scripted fault"))),
            Next::Pending(deferred) => {
                if !deferred {
                    cx.waker().wake_by_ref();
                } else if self.plan.thread_wake {
                    let w = cx.waker().clone();
                    let sh = self.shared.clone();
                    std::thread::spawn(move || {
                        std::thread::yield_now();
                        {
                            let mut l = sh.0.lock().unwrap();
                            l.wakes_issued += 1;
                            l.polls_since_wake = 0;
                            l.last_wake = Some(std::time::Instant::now());
                        }
                        w.wake();
                    });
                } else {
                    self.shared.0.lock().unwrap().parked = Some(cx.waker().clone());
                }
                Poll::Pending
            }
            Next::Interrupted => unreachable!(),
        }
    }
}

// ------------------------------------------------------------------ executor

struct Flag {
    woken: AtomicBool,
    wakes: AtomicU64,
}
impl Wake for Flag {
    fn wake(self: Arc<Self>) {
        self.woken.store(true, Ordering::SeqCst);
        self.wakes.fetch_add(1, Ordering::SeqCst);
    }
    fn wake_by_ref(self: &Arc<Self>) {
        self.woken.store(true, Ordering::SeqCst);
        self.wakes.fetch_add(1, Ordering::SeqCst);
    }
}

#[derive(Default, Debug, Clone)]
pub struct ExecStats {
    pub polls: u64,
    pub pendings: u64,
    pub deferred_wakes: u64,
    pub wakes: u64,
}

#[derive(Debug)]
pub enum Exec<T> {
    Ready(T),
    /// Pending returned, nobody holds / will fire a waker
    Deadlock,
    /// more than `max_idle` consecutive polls without the source position moving
    BusyLoop,
}

/// Poll `fut` to completion. `shareds`: the scripted sources whose parked wakers this executor fires.
pub fn run<F: Future>(fut: F, shareds: &[Shared], max_idle: u64) -> (Exec<F::Output>, ExecStats) {
    let mut fut = Box::pin(fut);
    let flag = Arc::new(Flag { woken: AtomicBool::new(false), wakes: AtomicU64::new(0) });
    let waker = Waker::from(flag.clone());
    let mut cx = Context::from_waker(&waker);
    let mut st = ExecStats::default();
    let mut idle = 0u64;
    let mut last_pos: usize = shareds.iter().map(|s| s.pos()).sum();
    loop {
        flag.woken.store(false, Ordering::SeqCst);
        st.polls += 1;
        match fut.as_mut().poll(&mut cx) {
            Poll::Ready(v) => {
                st.wakes = flag.wakes.load(Ordering::SeqCst);
                return (Exec::Ready(v), st);
            }
            Poll::Pending => {
                st.pendings += 1;
                let pos: usize = shareds.iter().map(|s| s.pos()).sum();
                if pos != last_pos {
                    idle = 0;
                    last_pos = pos;
                } else {
                    idle += 1;
                    if idle > max_idle {
                        st.wakes = flag.wakes.load(Ordering::SeqCst);
                        return (Exec::BusyLoop, st);
                    }
                }
                if flag.woken.load(Ordering::SeqCst) {
                    continue;
                }
                // fire one deferred wake, if a source parked a waker
                let mut fired = false;
                for s in shareds {
                    if let Some(w) = s.take_parked() {
                        w.wake();
                        st.deferred_wakes += 1;
                        fired = true;
                        break;
                    }
                }
                if !fired {
                    st.wakes = flag.wakes.load(Ordering::SeqCst);
                    return (Exec::Deadlock, st);
                }
            }
        }
    }
}

/// all compositions of n (as chunk-size lists) are indexed by the (n-1)-bit mask of cut positions
pub fn composition(n: usize, mask: u64) -> Vec<usize> {
    let mut v = vec![];
    let mut cur = 1;
    for i in 0..n.saturating_sub(1) {
        if mask >> i & 1 == 1 {
            v.push(cur);
            cur = 1;
        } else {
            cur += 1;
        }
    }
    if n > 0 {
        v.push(cur);
    }
    v
}
