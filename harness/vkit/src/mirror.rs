//! Conversions between the library's public value model and `ippref::Model`,
//! using only the public API of `ipp`.

use bytes::Bytes;
use ipp::prelude::*;
use ippref::{MGroup, MVal, Model};
use std::collections::BTreeMap;

pub fn to_ipp_value(v: &MVal) -> IppValue {
    match v {
        MVal::Integer(i) => IppValue::Integer(*i),
        MVal::Enum(i) => IppValue::Enum(*i),
        MVal::Boolean(b) => IppValue::Boolean(*b),
        MVal::Text { tag, s } => {
            let s = s.clone();
            match tag {
                0x30 => IppValue::OctetString(s),
                0x41 => IppValue::TextWithoutLanguage(s),
                0x42 => IppValue::NameWithoutLanguage(s),
                0x44 => IppValue::Keyword(s),
                0x45 => IppValue::Uri(s),
                0x46 => IppValue::UriScheme(s),
                0x47 => IppValue::Charset(s),
                0x48 => IppValue::NaturalLanguage(s),
                0x49 => IppValue::MimeMediaType(s),
                0x4a => IppValue::MemberAttrName(s),
                t => IppValue::Other { tag: *t, data: Bytes::from(s.into_bytes()) },
            }
        }
        MVal::WithLang { tag, lang, s } => {
            if *tag == 0x35 {
                IppValue::TextWithLanguage { language: lang.clone(), text: s.clone() }
            } else {
                IppValue::NameWithLanguage { language: lang.clone(), name: s.clone() }
            }
        }
        MVal::Range { min, max } => IppValue::RangeOfInteger { min: *min, max: *max },
        MVal::DateTime { year, month, day, hour, minutes, seconds, deci, dir, uh, um } => IppValue::DateTime {
            year: *year,
            month: *month,
            day: *day,
            hour: *hour,
            minutes: *minutes,
            seconds: *seconds,
            deci_seconds: *deci,
            utc_dir: *dir as char,
            utc_hours: *uh,
            utc_mins: *um,
        },
        MVal::Resolution { x, y, units } => IppValue::Resolution { cross_feed: *x, feed: *y, units: *units },
        MVal::NoValue => IppValue::NoValue,
        MVal::Other { tag, data } => IppValue::Other { tag: *tag, data: Bytes::from(data.clone()) },
        MVal::Set(vs) => IppValue::Array(vs.iter().map(to_ipp_value).collect()),
        MVal::Coll(m) => IppValue::Collection(m.iter().map(|(k, v)| (k.clone(), to_ipp_value(v))).collect()),
    }
}

/// `None` for a value that has no image in the wire model (utc_dir beyond one octet)
pub fn from_ipp_value(v: &IppValue) -> MVal {
    let t = |tag: u8, s: &String| MVal::Text { tag, s: s.clone() };
    match v {
        IppValue::Integer(i) => MVal::Integer(*i),
        IppValue::Enum(i) => MVal::Enum(*i),
        IppValue::Boolean(b) => MVal::Boolean(*b),
        IppValue::OctetString(s) => t(0x30, s),
        IppValue::TextWithoutLanguage(s) => t(0x41, s),
        IppValue::NameWithoutLanguage(s) => t(0x42, s),
        IppValue::Keyword(s) => t(0x44, s),
        IppValue::Uri(s) => t(0x45, s),
        IppValue::UriScheme(s) => t(0x46, s),
        IppValue::Charset(s) => t(0x47, s),
        IppValue::NaturalLanguage(s) => t(0x48, s),
        IppValue::MimeMediaType(s) => t(0x49, s),
        IppValue::MemberAttrName(s) => t(0x4a, s),
        IppValue::TextWithLanguage { language, text } => MVal::WithLang { tag: 0x35, lang: language.clone(), s: text.clone() },
        IppValue::NameWithLanguage { language, name } => MVal::WithLang { tag: 0x36, lang: language.clone(), s: name.clone() },
        IppValue::RangeOfInteger { min, max } => MVal::Range { min: *min, max: *max },
        IppValue::DateTime { year, month, day, hour, minutes, seconds, deci_seconds, utc_dir, utc_hours, utc_mins } => MVal::DateTime {
            year: *year,
            month: *month,
            day: *day,
            hour: *hour,
            minutes: *minutes,
            seconds: *seconds,
            deci: *deci_seconds,
            // a char beyond U+00FF cannot come from one octet; map to a value that never compares equal
            dir: if (*utc_dir as u32) <= 0xff { *utc_dir as u32 as u8 } else { 0xff },
            uh: *utc_hours,
            um: *utc_mins,
        },
        IppValue::Resolution { cross_feed, feed, units } => MVal::Resolution { x: *cross_feed, y: *feed, units: *units },
        IppValue::NoValue => MVal::NoValue,
        IppValue::Other { tag, data } => MVal::Other { tag: *tag, data: data.to_vec() },
        IppValue::Array(vs) => MVal::Set(vs.iter().map(from_ipp_value).collect()),
        IppValue::Collection(m) => MVal::Coll(m.iter().map(|(k, v)| (k.clone(), from_ipp_value(v))).collect()),
        // tolerate additions to the library's value enum: an unknown variant maps to a value no generator produces
        #[allow(unreachable_patterns)]
        other => MVal::Text { tag: 0x00, s: format!("<IppValue variant unknown to the harness: {other:?}>") },
    }
}

pub fn from_ipp_attrs(attrs: &IppAttributes) -> Vec<MGroup> {
    attrs
        .groups()
        .iter()
        .map(|g| MGroup {
            tag: g.tag() as u8,
            attrs: g
                .attributes()
                .iter()
                .map(|(k, a)| {
                    // the map key and the attribute's own name must agree; expose a disagreement as a distinct key
                    let key = if k == a.name() { k.clone() } else { format!("{k}\u{0}KEY!=NAME\u{0}{}", a.name()) };
                    (key, from_ipp_value(a.value()))
                })
                .collect::<BTreeMap<_, _>>(),
        })
        .collect()
}

/// header + attributes of a message (payload is not touched; `data` left empty)
pub fn from_ipp_head(header: &IppHeader, attrs: &IppAttributes) -> Model {
    Model { version: header.version.0, code: header.operation_or_status, id: header.request_id, groups: from_ipp_attrs(attrs), data: vec![] }
}

pub fn delim(tag: u8) -> DelimiterTag {
    DelimiterTag::from_u8(tag).expect("delimiter tag 1,2,4,5")
}

/// Build the library message for a model through the public API only
/// (`groups_mut().push` so that repeated and empty groups are expressible).
/// can this model be built through IppAttributes::add alone? (one group per kind, no empty group)
pub fn addable(m: &Model) -> bool {
    let mut seen = std::collections::HashSet::new();
    m.groups.iter().all(|g| !g.attrs.is_empty() && seen.insert(g.tag))
}

/// the same message as `to_ipp`, but built only with IppAttributes::add, the way applications do: attributes of a group in
/// a varying order, some of them first added with another value and then replaced (`salt` varies the choices)
pub fn to_ipp_via_add(m: &Model, salt: u64) -> IppRequestResponse {
    let mut r = IppRequestResponse::new_response(IppVersion(m.version), StatusCode::SuccessfulOk, m.id);
    r.header_mut().operation_or_status = m.code;
    r.attributes_mut().groups_mut().clear();
    let mut x = salt.wrapping_mul(0x9E3779B97F4A7C15) | 1;
    let mut next = move || {
        x ^= x << 13;
        x ^= x >> 7;
        x ^= x << 17;
        x
    };
    for g in &m.groups {
        let mut items: Vec<(&String, &MVal)> = g.attrs.iter().collect();
        for i in (1..items.len()).rev() {
            let j = (next() % (i as u64 + 1)) as usize;
            items.swap(i, j);
        }
        let mut pending: Vec<(&String, &MVal)> = vec![];
        for (k, v) in items {
            match next() % 4 {
                // added with a decoy value now, replaced by the real one later (after further additions)
                0 => {
                    r.attributes_mut().add(delim(g.tag), IppAttribute::new(k, IppValue::Integer(-77)));
                    pending.push((k, v));
                }
                // decoy immediately followed by the real value
                1 => {
                    r.attributes_mut().add(delim(g.tag), IppAttribute::new(k, IppValue::Keyword("decoy".into())));
                    r.attributes_mut().add(delim(g.tag), IppAttribute::new(k, to_ipp_value(v)));
                }
                _ => r.attributes_mut().add(delim(g.tag), IppAttribute::new(k, to_ipp_value(v))),
            }
        }
        for (k, v) in pending {
            r.attributes_mut().add(delim(g.tag), IppAttribute::new(k, to_ipp_value(v)));
        }
    }
    r
}

/// built by additions, then completed through the maps: for each group a prefix of its attributes goes in through
/// IppAttributes::add (with replaced decoys), the rest is inserted afterwards through groups_mut()/attributes_mut()
/// (the two public ways of filling a group must compose)
pub fn to_ipp_mixed(m: &Model, salt: u64) -> IppRequestResponse {
    let mut part = m.clone();
    let mut rest: Vec<Vec<(String, MVal)>> = vec![];
    let mut x = salt | 1;
    for g in part.groups.iter_mut() {
        x = x.wrapping_mul(6364136223846793005).wrapping_add(1442695040888963407);
        let keep = 1 + (x >> 33) as usize % g.attrs.len().max(1);
        let names: Vec<String> = g.attrs.keys().cloned().collect();
        let mut moved = vec![];
        for n in names.into_iter().skip(keep) {
            if let Some(v) = g.attrs.remove(&n) {
                moved.push((n, v));
            }
        }
        rest.push(moved);
    }
    let mut r = to_ipp_via_add(&part, salt);
    for (gi, moved) in rest.into_iter().enumerate() {
        for (k, v) in moved {
            r.attributes_mut().groups_mut()[gi].attributes_mut().insert(k.clone(), IppAttribute::new(&k, to_ipp_value(&v)));
        }
    }
    r
}

pub fn to_ipp(m: &Model) -> IppRequestResponse {
    let mut r = IppRequestResponse::new_response(IppVersion(m.version), StatusCode::SuccessfulOk, m.id);
    r.header_mut().operation_or_status = m.code;
    r.attributes_mut().groups_mut().clear();
    for g in &m.groups {
        let mut grp = IppAttributeGroup::new(delim(g.tag));
        for (k, v) in &g.attrs {
            grp.attributes_mut().insert(k.clone(), IppAttribute::new(k, to_ipp_value(v)));
        }
        r.attributes_mut().groups_mut().push(grp);
    }
    r
}

/// first difference between two models, as a short path + both sides
pub fn diff(a: &Model, b: &Model) -> Option<String> {
    if (a.version, a.code, a.id) != (b.version, b.code, b.id) {
        return Some(format!("header: {:04x}/{:04x}/{} vs {:04x}/{:04x}/{}", a.version, a.code, a.id, b.version, b.code, b.id));
    }
    let ta: Vec<u8> = a.groups.iter().map(|g| g.tag).collect();
    let tb: Vec<u8> = b.groups.iter().map(|g| g.tag).collect();
    if ta != tb {
        return Some(format!("group sequence: {ta:?} vs {tb:?}"));
    }
    for (i, (ga, gb)) in a.groups.iter().zip(b.groups.iter()).enumerate() {
        let ka: Vec<&String> = ga.attrs.keys().collect();
        let kb: Vec<&String> = gb.attrs.keys().collect();
        if ka != kb {
            let only_a: Vec<&&String> = ka.iter().filter(|k| !kb.contains(k)).collect();
            let only_b: Vec<&&String> = kb.iter().filter(|k| !ka.contains(k)).collect();
            return Some(format!("group {i} (tag {}): names differ: only-left {:?} only-right {:?}", ga.tag, short(&only_a), short(&only_b)));
        }
        for (k, va) in &ga.attrs {
            let vb = &gb.attrs[k];
            if va != vb {
                return Some(format!("group {i} (tag {}) attr {:?}: {}", ga.tag, shorts(k), vdiff(va, vb)));
            }
        }
    }
    if a.data != b.data {
        let p = a.data.iter().zip(b.data.iter()).position(|(x, y)| x != y).unwrap_or(a.data.len().min(b.data.len()));
        return Some(format!("payload: len {} vs {}, first difference at {p}", a.data.len(), b.data.len()));
    }
    None
}

fn shorts(s: &str) -> String {
    if s.len() > 40 {
        let mut cut = 40;
        while !s.is_char_boundary(cut) {
            cut -= 1;
        }
        format!("{}..(len {})", &s[..cut], s.len())
    } else {
        s.to_string()
    }
}

fn short(v: &[&&String]) -> Vec<String> {
    v.iter().take(4).map(|s| shorts(s)).collect()
}

fn vdiff(a: &MVal, b: &MVal) -> String {
    match (a, b) {
        (MVal::Set(x), MVal::Set(y)) => {
            if x.len() != y.len() {
                return format!("set len {} vs {}", x.len(), y.len());
            }
            for (i, (p, q)) in x.iter().zip(y.iter()).enumerate() {
                if p != q {
                    return format!("[{i}] {}", vdiff(p, q));
                }
            }
            "sets differ".into()
        }
        (MVal::Coll(x), MVal::Coll(y)) => {
            let kx: Vec<&String> = x.keys().collect();
            let ky: Vec<&String> = y.keys().collect();
            if kx != ky {
                return format!("members {:?} vs {:?}", kx.iter().take(6).map(|s| shorts(s)).collect::<Vec<_>>(), ky.iter().take(6).map(|s| shorts(s)).collect::<Vec<_>>());
            }
            for (k, p) in x {
                if p != &y[k] {
                    return format!(".{} {}", shorts(k), vdiff(p, &y[k]));
                }
            }
            "collections differ".into()
        }
        _ => format!("{} vs {}", vshort(a), vshort(b)),
    }
}

pub fn vshort(v: &MVal) -> String {
    let s = format!("{v:?}");
    if s.len() > 160 {
        let mut cut = 160;
        while !s.is_char_boundary(cut) {
            cut -= 1;
        }
        format!("{}..", &s[..cut])
    } else {
        s
    }
}
