//! Small helpers: panic capture, parallel map, argument parsing.

use std::cell::RefCell;
use std::panic::{self, AssertUnwindSafe};

thread_local! {
    static LAST_PANIC: RefCell<Option<String>> = RefCell::new(None);
}

/// a logger that accepts every level and formats every record into nothing: `log` evaluates the arguments of its macros only
/// when a logger takes the level, so code that runs only "while logging" (and its panics and costs) is otherwise never executed
struct SinkLogger;
pub static LOGGED_RECORDS: std::sync::atomic::AtomicU64 = std::sync::atomic::AtomicU64::new(0);
pub static LOGGED_BYTES: std::sync::atomic::AtomicU64 = std::sync::atomic::AtomicU64::new(0);
impl log::Log for SinkLogger {
    fn enabled(&self, _: &log::Metadata) -> bool {
        true
    }
    fn log(&self, record: &log::Record) {
        use std::fmt::Write;
        struct Count(u64);
        impl Write for Count {
            fn write_str(&mut self, s: &str) -> std::fmt::Result {
                self.0 += s.len() as u64;
                Ok(())
            }
        }
        let mut c = Count(0);
        let _ = write!(c, "{}", record.args());
        LOGGED_RECORDS.fetch_add(1, std::sync::atomic::Ordering::Relaxed);
        LOGGED_BYTES.fetch_add(c.0, std::sync::atomic::Ordering::Relaxed);
    }
    fn flush(&self) {}
}
static SINK: SinkLogger = SinkLogger;

/// install the all-levels sink logger (idempotent)
pub fn install_logger() {
    if log::set_logger(&SINK).is_ok() {
        log::set_max_level(log::LevelFilter::Trace);
    }
}

/// install a quiet panic hook that records message + location per thread
pub fn install_panic_hook() {
    panic::set_hook(Box::new(|info| {
        let loc = info.location().map(|l| format!("{}:{}", l.file(), l.line())).unwrap_or_default();
        let msg = if let Some(s) = info.payload().downcast_ref::<&str>() {
            s.to_string()
        } else if let Some(s) = info.payload().downcast_ref::<String>() {
            s.clone()
        } else {
            "panic".to_string()
        };
        LAST_PANIC.with(|p| *p.borrow_mut() = Some(format!("{msg} @ {loc}")));
    }));
}

/// run f, converting a panic into Err(message @ location)
pub fn catch<T>(f: impl FnOnce() -> T) -> Result<T, String> {
    match panic::catch_unwind(AssertUnwindSafe(f)) {
        Ok(v) => Ok(v),
        Err(_) => Err(LAST_PANIC.with(|p| p.borrow_mut().take()).unwrap_or_else(|| "panic".into())),
    }
}

/// location part of a captured panic, with line numbers kept (signature use)
pub fn panic_site(msg: &str) -> String {
    msg.rsplit(" @ ").next().unwrap_or("").to_string()
}

/// split 0..n into `shards` contiguous ranges and run them on threads; results in shard order
pub fn par<T: Send>(shards: usize, f: impl Fn(usize) -> T + Sync) -> Vec<T> {
    let f = &f;
    std::thread::scope(|s| {
        let hs: Vec<_> = (0..shards)
            .map(|i| std::thread::Builder::new().stack_size(64 << 20).spawn_scoped(s, move || f(i)).unwrap())
            .collect();
        hs.into_iter().map(|h| h.join().expect("worker thread died")).collect()
    })
}

pub fn threads() -> usize {
    std::env::var("VERIF_THREADS").ok().and_then(|s| s.parse().ok()).unwrap_or_else(|| {
        std::thread::available_parallelism().map(|n| n.get()).unwrap_or(4).min(16)
    })
}

pub struct Args {
    pub v: Vec<String>,
}
impl Args {
    pub fn from_env() -> Args {
        Args { v: std::env::args().skip(1).collect() }
    }
    pub fn get(&self, key: &str) -> Option<&str> {
        self.v.iter().position(|a| a == key).and_then(|i| self.v.get(i + 1)).map(|s| s.as_str())
    }
    pub fn has(&self, key: &str) -> bool {
        self.v.iter().any(|a| a == key)
    }
    pub fn u64(&self, key: &str, default: u64) -> u64 {
        self.get(key).and_then(|s| s.parse().ok()).unwrap_or(default)
    }
    pub fn str(&self, key: &str, default: &str) -> String {
        self.get(key).unwrap_or(default).to_string()
    }
}
