//! Independent RFC 8010 reference codec and RFC 8011 / PWG / CUPS registries.
//!
//! Written from the RFCs only; deliberately has NO dependency on the `ipp`
//! crate so it can serve as an external oracle.
//!
//! * `WMsg` .. wire tree (exactly what is on the wire, order preserved)
//! * `decode_strict` .. accepts only what RFC 8010 section 3 derives
//! * `encode` .. wire tree -> bytes
//! * `interp` .. RFC reading of a wire tree as a value model (`Model`)

pub mod model;
pub mod registry;
pub mod wire;

pub use model::*;
pub use wire::*;

/// RFC 8010 Appendix A examples, transcribed by hand, used as a start-up
/// self check that anchors the oracle to the RFC and not to the library.
pub fn self_check() -> Result<(), String> {
    // A.1 Print-Job request (header + operation attributes + job attrs + data)
    let mut v: Vec<u8> = vec![0x01, 0x01, 0x00, 0x02, 0x00, 0x00, 0x00, 0x01, 0x01];
    fn attr(v: &mut Vec<u8>, tag: u8, name: &str, val: &[u8]) {
        v.push(tag);
        v.extend_from_slice(&(name.len() as u16).to_be_bytes());
        v.extend_from_slice(name.as_bytes());
        v.extend_from_slice(&(val.len() as u16).to_be_bytes());
        v.extend_from_slice(val);
    }
    attr(&mut v, 0x47, "attributes-charset", b"utf-8");
    attr(&mut v, 0x48, "attributes-natural-language", b"en-us");
    attr(&mut v, 0x45, "printer-uri", b"ipp://printer.example.com/ipp/print/pinetree");
    attr(&mut v, 0x42, "job-name", b"foobar");
    attr(&mut v, 0x22, "ipp-attribute-fidelity", &[0x01]);
    v.push(0x02);
    attr(&mut v, 0x21, "copies", &[0, 0, 0, 0x14]);
    attr(&mut v, 0x44, "sides", b"two-sided-long-edge");
    v.push(0x03);
    v.extend_from_slice(b"%!PDF...");
    let w = decode_strict(&v, &Strictness::full()).map_err(|e| format!("A.1 rejected: {e:?}"))?;
    if w.version != 0x0101 || w.code != 2 || w.id != 1 || w.groups.len() != 2 || w.data != b"%!PDF..." {
        return Err("A.1 header/groups/data".into());
    }
    let m = interp(&w);
    let g0 = &m.groups[0];
    if g0.tag != 1 || g0.attrs.len() != 5 {
        return Err("A.1 group 0".into());
    }
    if g0.attrs.get("attributes-charset") != Some(&MVal::Text { tag: 0x47, s: "utf-8".into() }) {
        return Err("A.1 charset".into());
    }
    if g0.attrs.get("ipp-attribute-fidelity") != Some(&MVal::Boolean(true)) {
        return Err("A.1 fidelity".into());
    }
    if m.groups[1].attrs.get("copies") != Some(&MVal::Integer(20)) {
        return Err("A.1 copies".into());
    }
    if encode(&w) != v {
        return Err("A.1 re-encode".into());
    }

    // A.3 Print-Job response (failure) with an unsupported attributes group
    let mut v: Vec<u8> = vec![0x01, 0x01, 0x04, 0x0B, 0x00, 0x00, 0x00, 0x01, 0x01];
    attr(&mut v, 0x47, "attributes-charset", b"utf-8");
    attr(&mut v, 0x48, "attributes-natural-language", b"en-us");
    attr(&mut v, 0x41, "status-message", b"client-error-attributes-or-values-not-supported");
    v.push(0x05);
    attr(&mut v, 0x21, "copies", &[0, 0, 0, 0x14]);
    attr(&mut v, 0x10, "sides", b"");
    v.push(0x03);
    let w = decode_strict(&v, &Strictness::full()).map_err(|e| format!("A.3 rejected: {e:?}"))?;
    let m = interp(&w);
    if m.code != 0x040B || m.groups.len() != 2 || m.groups[1].tag != 5 {
        return Err("A.3 structure".into());
    }
    if m.groups[1].attrs.get("sides") != Some(&MVal::Other { tag: 0x10, data: vec![] }) {
        return Err("A.3 unsupported out-of-band".into());
    }
    if registry::status_keyword(0x040B) != Some("client-error-attributes-or-values-not-supported") {
        return Err("registry 0x040B".into());
    }

    // A.6 Get-Jobs response style: two job groups; A.9-ish 1setOf + collection (RFC 8010 3.1.6 example layout)
    let mut v: Vec<u8> = vec![0x02, 0x00, 0x00, 0x00, 0x00, 0x00, 0x00, 0x7b, 0x01];
    attr(&mut v, 0x47, "attributes-charset", b"utf-8");
    attr(&mut v, 0x48, "attributes-natural-language", b"en-us");
    v.push(0x02);
    attr(&mut v, 0x21, "job-id", &[0, 0, 0, 147]);
    v.push(0x02);
    attr(&mut v, 0x21, "job-id", &[0, 0, 0, 148]);
    // 1setOf keyword
    attr(&mut v, 0x44, "job-state-reasons", b"a");
    attr(&mut v, 0x44, "", b"b");
    // collection media-col { media-size { x-dimension=21000 y-dimension=29700 } media-type = stationery, "foo" }
    attr(&mut v, 0x34, "media-col", b"");
    attr(&mut v, 0x4a, "", b"media-size");
    attr(&mut v, 0x34, "", b"");
    attr(&mut v, 0x4a, "", b"x-dimension");
    attr(&mut v, 0x21, "", &[0, 0, 0x52, 0x08]);
    attr(&mut v, 0x4a, "", b"y-dimension");
    attr(&mut v, 0x21, "", &[0, 0, 0x74, 0x04]);
    attr(&mut v, 0x37, "", b"");
    attr(&mut v, 0x4a, "", b"media-type");
    attr(&mut v, 0x44, "", b"stationery");
    attr(&mut v, 0x42, "", b"foo");
    attr(&mut v, 0x37, "", b"");
    v.push(0x03);
    let w = decode_strict(&v, &Strictness::full()).map_err(|e| format!("A.x rejected: {e:?}"))?;
    let m = interp(&w);
    if m.groups.len() != 3 || m.groups[1].tag != 2 || m.groups[2].tag != 2 {
        return Err("A.x groups".into());
    }
    let g = &m.groups[2];
    match g.attrs.get("job-state-reasons") {
        Some(MVal::Set(s)) if s.len() == 2 => {}
        other => return Err(format!("A.x set: {other:?}")),
    }
    match g.attrs.get("media-col") {
        Some(MVal::Coll(c)) => {
            match c.get("media-size") {
                Some(MVal::Coll(ms)) => {
                    if ms.get("x-dimension") != Some(&MVal::Integer(21000)) || ms.get("y-dimension") != Some(&MVal::Integer(29700)) {
                        return Err("A.x dims".into());
                    }
                }
                _ => return Err("A.x media-size".into()),
            }
            match c.get("media-type") {
                Some(MVal::Set(s)) if s.len() == 2 && s[1] == (MVal::Text { tag: 0x42, s: "foo".into() }) => {}
                other => return Err(format!("A.x media-type {other:?}")),
            }
        }
        _ => return Err("A.x media-col".into()),
    }
    if encode(&w) != v {
        return Err("A.x re-encode".into());
    }
    // strictness: a few negatives
    let mut bad = v.clone();
    bad.pop(); // no end tag
    if decode_strict(&bad, &Strictness::full()).is_ok() {
        return Err("neg: missing end tag accepted".into());
    }
    let bad: Vec<u8> = vec![1, 1, 0, 0, 0, 0, 0, 1, 0x01, 0x21, 0, 0, 0, 4, 0, 0, 0, 1, 0x03];
    if decode_strict(&bad, &Strictness::full()).is_ok() {
        return Err("neg: additional value without attribute accepted".into());
    }
    let bad: Vec<u8> = vec![1, 1, 0, 0, 0, 0, 0, 1, 0x01, 0x21, 0, 1, b'a', 0, 2, 0, 0, 0x03];
    if decode_strict(&bad, &Strictness::full()).is_ok() {
        return Err("neg: 2-byte integer accepted".into());
    }
    Ok(())
}
