//! Value model = the RFC 8010/8011 reading of a wire tree.

use crate::wire::*;
use std::collections::BTreeMap;

#[derive(Clone, Debug, PartialEq, Eq)]
pub enum MVal {
    Integer(i32),
    Enum(i32),
    Boolean(bool),
    /// every character-string-like syntax (0x30, 0x41, 0x42, 0x44..0x4a), decoded lossily
    Text { tag: u8, s: String },
    /// 0x35 / 0x36
    WithLang { tag: u8, lang: String, s: String },
    Range { min: i32, max: i32 },
    DateTime { year: u16, month: u8, day: u8, hour: u8, minutes: u8, seconds: u8, deci: u8, dir: u8, uh: u8, um: u8 },
    Resolution { x: i32, y: i32, units: i8 },
    /// 0x13
    NoValue,
    /// any other tag in 0x10..=0x4a: raw octets
    Other { tag: u8, data: Vec<u8> },
    Set(Vec<MVal>),
    Coll(BTreeMap<String, MVal>),
}

#[derive(Clone, Debug, PartialEq, Eq)]
pub struct MGroup {
    pub tag: u8,
    pub attrs: BTreeMap<String, MVal>,
}

#[derive(Clone, Debug, PartialEq, Eq)]
pub struct Model {
    pub version: u16,
    pub code: u16,
    pub id: u32,
    pub groups: Vec<MGroup>,
    pub data: Vec<u8>,
}

pub fn lossy(b: &[u8]) -> String {
    String::from_utf8_lossy(b).into_owned()
}

fn be32(b: &[u8]) -> i32 {
    i32::from_be_bytes([b[0], b[1], b[2], b[3]])
}

pub const TEXT_TAGS: [u8; 10] = [0x30, 0x41, 0x42, 0x44, 0x45, 0x46, 0x47, 0x48, 0x49, 0x4a];

/// RFC reading of one scalar. Bodies are assumed valid (`body_ok`); invalid
/// bodies of fixed-width syntaxes are kept as raw octets so that the function is total.
pub fn interp_scalar(tag: u8, b: &[u8]) -> MVal {
    if !body_ok(tag, b) {
        return MVal::Other { tag, data: b.to_vec() };
    }
    match tag {
        0x13 => MVal::NoValue,
        0x21 => MVal::Integer(be32(b)),
        0x23 => MVal::Enum(be32(b)),
        0x22 => MVal::Boolean(b[0] != 0),
        0x33 => MVal::Range { min: be32(&b[0..4]), max: be32(&b[4..8]) },
        0x32 => MVal::Resolution { x: be32(&b[0..4]), y: be32(&b[4..8]), units: b[8] as i8 },
        0x31 => MVal::DateTime {
            year: u16::from_be_bytes([b[0], b[1]]),
            month: b[2],
            day: b[3],
            hour: b[4],
            minutes: b[5],
            seconds: b[6],
            deci: b[7],
            dir: b[8],
            uh: b[9],
            um: b[10],
        },
        0x35 | 0x36 => {
            let l1 = u16::from_be_bytes([b[0], b[1]]) as usize;
            let lang = lossy(&b[2..2 + l1]);
            let s = lossy(&b[4 + l1..]);
            MVal::WithLang { tag, lang, s }
        }
        t if TEXT_TAGS.contains(&t) => MVal::Text { tag, s: lossy(b) },
        _ => MVal::Other { tag, data: b.to_vec() },
    }
}

fn one_or_set(mut vs: Vec<MVal>) -> MVal {
    if vs.len() == 1 {
        vs.pop().unwrap()
    } else {
        MVal::Set(vs)
    }
}

pub fn interp_val(v: &WVal) -> MVal {
    match v {
        WVal::Scalar { tag, body } => interp_scalar(*tag, body),
        WVal::Coll(members) => {
            let mut m = BTreeMap::new();
            for a in members {
                m.insert(lossy(&a.name), one_or_set(a.values.iter().map(interp_val).collect()));
            }
            MVal::Coll(m)
        }
    }
}

pub fn interp(w: &WMsg) -> Model {
    Model {
        version: w.version,
        code: w.code,
        id: w.id,
        groups: w
            .groups
            .iter()
            .map(|g| MGroup {
                tag: g.tag,
                attrs: g
                    .attrs
                    .iter()
                    .map(|a| (lossy(&a.name), one_or_set(a.values.iter().map(interp_val).collect())))
                    .collect(),
            })
            .collect(),
        data: w.data.clone(),
    }
}

impl MVal {
    /// one-element set == its element (applied recursively)
    pub fn normalize(self) -> MVal {
        match self {
            MVal::Set(mut v) if v.len() == 1 => v.pop().unwrap().normalize(),
            MVal::Set(v) => MVal::Set(v.into_iter().map(|x| x.normalize()).collect()),
            MVal::Coll(m) => MVal::Coll(m.into_iter().map(|(k, v)| (k, v.normalize())).collect()),
            other => other,
        }
    }

    pub fn depth(&self) -> usize {
        match self {
            MVal::Set(v) => v.iter().map(|x| x.depth()).max().unwrap_or(0),
            MVal::Coll(m) => 1 + m.values().map(|x| x.depth()).max().unwrap_or(0),
            _ => 0,
        }
    }

    /// kind index 0..22 in the order of the public value model's 22 kinds
    pub fn kind(&self) -> usize {
        match self {
            MVal::Integer(_) => 0,
            MVal::Enum(_) => 1,
            MVal::Text { tag, .. } => match tag {
                0x30 => 2,
                0x41 => 3,
                0x42 => 4,
                0x47 => 7,
                0x48 => 8,
                0x45 => 9,
                0x46 => 10,
                0x44 => 13,
                0x49 => 16,
                0x4a => 18,
                _ => 21,
            },
            MVal::WithLang { tag, .. } => {
                if *tag == 0x35 {
                    5
                } else {
                    6
                }
            }
            MVal::Range { .. } => 11,
            MVal::Boolean(_) => 12,
            MVal::Set(_) => 14,
            MVal::Coll(_) => 15,
            MVal::DateTime { .. } => 17,
            MVal::Resolution { .. } => 19,
            MVal::NoValue => 20,
            MVal::Other { .. } => 21,
        }
    }
}

pub const KIND_NAMES: [&str; 22] = [
    "Integer", "Enum", "OctetString", "TextWithoutLanguage", "NameWithoutLanguage", "TextWithLanguage", "NameWithLanguage",
    "Charset", "NaturalLanguage", "Uri", "UriScheme", "RangeOfInteger", "Boolean", "Keyword", "Array", "Collection",
    "MimeMediaType", "DateTime", "MemberAttrName", "Resolution", "NoValue", "Other",
];

impl Model {
    pub fn normalize(mut self) -> Model {
        for g in &mut self.groups {
            let attrs = std::mem::take(&mut g.attrs);
            g.attrs = attrs.into_iter().map(|(k, v)| (k, v.normalize())).collect();
        }
        self
    }
}

/// reference wire form of a model value: list of wire values (a set is several)
pub fn val_to_wire(v: &MVal) -> Vec<WVal> {
    match v {
        MVal::Set(vs) => vs.iter().flat_map(val_to_wire).collect(),
        other => vec![scalar_to_wire(other)],
    }
}

fn scalar_to_wire(v: &MVal) -> WVal {
    let sc = |tag: u8, body: Vec<u8>| WVal::Scalar { tag, body };
    match v {
        MVal::Integer(i) => sc(0x21, i.to_be_bytes().to_vec()),
        MVal::Enum(i) => sc(0x23, i.to_be_bytes().to_vec()),
        MVal::Boolean(b) => sc(0x22, vec![*b as u8]),
        MVal::Text { tag, s } => sc(*tag, s.as_bytes().to_vec()),
        MVal::WithLang { tag, lang, s } => {
            let mut b = Vec::new();
            b.extend_from_slice(&(lang.len() as u16).to_be_bytes());
            b.extend_from_slice(lang.as_bytes());
            b.extend_from_slice(&(s.len() as u16).to_be_bytes());
            b.extend_from_slice(s.as_bytes());
            sc(*tag, b)
        }
        MVal::Range { min, max } => {
            let mut b = min.to_be_bytes().to_vec();
            b.extend_from_slice(&max.to_be_bytes());
            sc(0x33, b)
        }
        MVal::DateTime { year, month, day, hour, minutes, seconds, deci, dir, uh, um } => {
            let mut b = year.to_be_bytes().to_vec();
            b.extend_from_slice(&[*month, *day, *hour, *minutes, *seconds, *deci, *dir, *uh, *um]);
            sc(0x31, b)
        }
        MVal::Resolution { x, y, units } => {
            let mut b = x.to_be_bytes().to_vec();
            b.extend_from_slice(&y.to_be_bytes());
            b.push(*units as u8);
            sc(0x32, b)
        }
        MVal::NoValue => sc(0x13, vec![]),
        MVal::Other { tag, data } => sc(*tag, data.clone()),
        MVal::Coll(m) => WVal::Coll(m.iter().map(|(k, v)| WAttr { name: k.as_bytes().to_vec(), values: val_to_wire(v) }).collect()),
        MVal::Set(_) => unreachable!("nested set has no wire form"),
    }
}

/// Reference encoding of `m` that follows the attribute / member order seen in
/// `observed` (the only freedom RFC 8010 leaves). Names in `m` missing from
/// `observed` are appended in sorted order (a content mismatch is then
/// reported elsewhere).
pub fn model_to_wire_like(m: &Model, observed: Option<&WMsg>) -> WMsg {
    fn order_members(v: &mut WVal, obs: Option<&WVal>) {
        if let (WVal::Coll(members), Some(WVal::Coll(omembers))) = (&mut *v, obs) {
            let mut out: Vec<WAttr> = Vec::new();
            let mut rest: Vec<WAttr> = std::mem::take(members);
            for om in omembers {
                if let Some(p) = rest.iter().position(|a| a.name == om.name) {
                    let mut a = rest.remove(p);
                    for (i, val) in a.values.iter_mut().enumerate() {
                        order_members(val, om.values.get(i));
                    }
                    out.push(a);
                }
            }
            out.extend(rest);
            *members = out;
        }
    }
    let mut groups = Vec::new();
    for (gi, g) in m.groups.iter().enumerate() {
        let og = observed.and_then(|o| o.groups.get(gi));
        let mut attrs: Vec<WAttr> = g.attrs.iter().map(|(k, v)| WAttr { name: k.as_bytes().to_vec(), values: val_to_wire(v) }).collect();
        if let Some(og) = og {
            let mut out = Vec::new();
            for oa in &og.attrs {
                if let Some(p) = attrs.iter().position(|a| a.name == oa.name) {
                    let mut a = attrs.remove(p);
                    for (i, val) in a.values.iter_mut().enumerate() {
                        order_members(val, oa.values.get(i));
                    }
                    out.push(a);
                }
            }
            out.extend(attrs);
            attrs = out;
        }
        groups.push(WGroup { tag: g.tag, attrs });
    }
    WMsg { version: m.version, code: m.code, id: m.id, groups, data: m.data.clone() }
}
