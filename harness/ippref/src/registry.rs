//! Registries typed in from RFC 8010 section 3.5, RFC 8011 section 5 / Appendix B,
//! PWG 5100.1 (finishings) and the CUPS IPP specification (CUPS operations).
//! (code, registry keyword, extra accepted spellings)

pub type Entry = (u32, &'static str, &'static [&'static str]);

pub const STATUS: &[Entry] = &[
    (0x0000, "successful-ok", &[]),
    (0x0001, "successful-ok-ignored-or-substituted-attributes", &[]),
    (0x0002, "successful-ok-conflicting-attributes", &[]),
    (0x0400, "client-error-bad-request", &[]),
    (0x0401, "client-error-forbidden", &[]),
    (0x0402, "client-error-not-authenticated", &[]),
    (0x0403, "client-error-not-authorized", &[]),
    (0x0404, "client-error-not-possible", &[]),
    (0x0405, "client-error-timeout", &[]),
    (0x0406, "client-error-not-found", &[]),
    (0x0407, "client-error-gone", &[]),
    (0x0408, "client-error-request-entity-too-large", &["client-error-request-entity-too-long"]),
    (0x0409, "client-error-request-value-too-long", &[]),
    (0x040A, "client-error-document-format-not-supported", &[]),
    (0x040B, "client-error-attributes-or-values-not-supported", &[]),
    (0x040C, "client-error-uri-scheme-not-supported", &[]),
    (0x040D, "client-error-charset-not-supported", &[]),
    (0x040E, "client-error-conflicting-attributes", &[]),
    (0x040F, "client-error-compression-not-supported", &[]),
    (0x0410, "client-error-compression-error", &[]),
    (0x0411, "client-error-document-format-error", &[]),
    (0x0412, "client-error-document-access-error", &[]),
    (0x0500, "server-error-internal-error", &[]),
    (0x0501, "server-error-operation-not-supported", &[]),
    (0x0502, "server-error-service-unavailable", &[]),
    (0x0503, "server-error-version-not-supported", &[]),
    (0x0504, "server-error-device-error", &[]),
    (0x0505, "server-error-temporary-error", &[]),
    (0x0506, "server-error-not-accepting-jobs", &[]),
    (0x0507, "server-error-busy", &[]),
    (0x0508, "server-error-job-canceled", &[]),
    (0x0509, "server-error-multiple-document-jobs-not-supported", &[]),
];

/// RFC 8011 successful codes
pub const SUCCESS_CODES: &[u32] = &[0x0000, 0x0001, 0x0002];

pub const OPERATIONS: &[Entry] = &[
    (0x0002, "Print-Job", &[]),
    (0x0003, "Print-URI", &[]),
    (0x0004, "Validate-Job", &[]),
    (0x0005, "Create-Job", &[]),
    (0x0006, "Send-Document", &[]),
    (0x0007, "Send-URI", &[]),
    (0x0008, "Cancel-Job", &[]),
    (0x0009, "Get-Job-Attributes", &[]),
    (0x000A, "Get-Jobs", &[]),
    (0x000B, "Get-Printer-Attributes", &[]),
    (0x000C, "Hold-Job", &[]),
    (0x000D, "Release-Job", &[]),
    (0x000E, "Restart-Job", &[]),
    (0x0010, "Pause-Printer", &[]),
    (0x0011, "Resume-Printer", &[]),
    (0x0012, "Purge-Jobs", &[]),
    // IANA IPP registry, operations registered by later documents (RFC 3380, 3995, 3998, PWG 5100.x)
    (0x0013, "Set-Printer-Attributes", &[]),
    (0x0014, "Set-Job-Attributes", &[]),
    (0x0015, "Get-Printer-Supported-Values", &[]),
    (0x0016, "Create-Printer-Subscriptions", &[]),
    (0x0017, "Create-Job-Subscriptions", &[]),
    (0x0018, "Get-Subscription-Attributes", &[]),
    (0x0019, "Get-Subscriptions", &[]),
    (0x001A, "Renew-Subscription", &[]),
    (0x001B, "Cancel-Subscription", &[]),
    (0x001C, "Get-Notifications", &[]),
    (0x0022, "Enable-Printer", &[]),
    (0x0023, "Disable-Printer", &[]),
    (0x0024, "Pause-Printer-After-Current-Job", &[]),
    (0x0025, "Hold-New-Jobs", &[]),
    (0x0026, "Release-Held-New-Jobs", &[]),
    (0x0027, "Deactivate-Printer", &[]),
    (0x0028, "Activate-Printer", &[]),
    (0x0029, "Restart-Printer", &[]),
    (0x002A, "Shutdown-Printer", &[]),
    (0x002B, "Startup-Printer", &[]),
    (0x002C, "Reprocess-Job", &[]),
    (0x002D, "Cancel-Current-Job", &[]),
    (0x002E, "Suspend-Current-Job", &[]),
    (0x002F, "Resume-Job", &[]),
    (0x0030, "Promote-Job", &[]),
    (0x0031, "Schedule-Job-After", &[]),
    (0x0033, "Cancel-Document", &[]),
    (0x0034, "Get-Document-Attributes", &[]),
    (0x0035, "Get-Documents", &[]),
    (0x0036, "Delete-Document", &[]),
    (0x0037, "Set-Document-Attributes", &[]),
    (0x0038, "Cancel-Jobs", &[]),
    (0x0039, "Cancel-My-Jobs", &[]),
    (0x003A, "Resubmit-Job", &[]),
    (0x003B, "Close-Job", &[]),
    (0x003C, "Identify-Printer", &[]),
    (0x003D, "Validate-Document", &[]),
    (0x4001, "CUPS-Get-Default", &[]),
    (0x4002, "CUPS-Get-Printers", &[]),
    (0x4003, "CUPS-Add-Modify-Printer", &[]),
    (0x4004, "CUPS-Delete-Printer", &[]),
    (0x4005, "CUPS-Get-Classes", &[]),
    (0x4006, "CUPS-Add-Modify-Class", &[]),
    (0x4007, "CUPS-Delete-Class", &[]),
    (0x4008, "CUPS-Accept-Jobs", &[]),
    (0x4009, "CUPS-Reject-Jobs", &[]),
    (0x400A, "CUPS-Set-Default", &[]),
    (0x400B, "CUPS-Get-Devices", &[]),
    (0x400C, "CUPS-Get-PPDs", &[]),
    (0x400D, "CUPS-Move-Job", &[]),
    (0x400E, "CUPS-Authenticate-Job", &[]),
    (0x400F, "CUPS-Get-PPD", &[]),
    (0x4027, "CUPS-Get-Document", &[]),
    (0x4028, "CUPS-Create-Local-Printer", &[]),
];

pub const DELIMITERS: &[Entry] = &[
    (0x01, "operation-attributes", &["operation-attributes-tag"]),
    (0x02, "job-attributes", &["job-attributes-tag"]),
    (0x03, "end-of-attributes", &["end-of-attributes-tag"]),
    (0x04, "printer-attributes", &["printer-attributes-tag"]),
    (0x05, "unsupported-attributes", &["unsupported-attributes-tag"]),
    // IANA IPP registry, delimiter tags registered after RFC 8010 (RFC 3995, PWG 5100.5, 5100.22)
    (0x06, "subscription-attributes", &["subscription-attributes-tag"]),
    (0x07, "event-notification-attributes", &["event-notification-attributes-tag"]),
    (0x08, "resource-attributes", &["resource-attributes-tag"]),
    (0x09, "document-attributes", &["document-attributes-tag"]),
    (0x0a, "system-attributes", &["system-attributes-tag"]),
];

pub const VALUE_TAGS: &[Entry] = &[
    (0x10, "unsupported", &[]),
    (0x11, "default", &[]),
    (0x12, "unknown", &[]),
    (0x13, "no-value", &[]),
    (0x15, "not-settable", &[]),
    (0x16, "delete-attribute", &[]),
    (0x17, "admin-define", &[]),
    (0x21, "integer", &[]),
    (0x22, "boolean", &[]),
    (0x23, "enum", &[]),
    (0x30, "octetString", &["octet-string-unspecified", "octet-string"]),
    (0x31, "dateTime", &[]),
    (0x32, "resolution", &[]),
    (0x33, "rangeOfInteger", &[]),
    (0x34, "begCollection", &["begin-collection"]),
    (0x35, "textWithLanguage", &[]),
    (0x36, "nameWithLanguage", &[]),
    (0x37, "endCollection", &[]),
    (0x41, "textWithoutLanguage", &[]),
    (0x42, "nameWithoutLanguage", &[]),
    (0x44, "keyword", &[]),
    (0x45, "uri", &[]),
    (0x46, "uriScheme", &[]),
    (0x47, "charset", &[]),
    (0x48, "naturalLanguage", &[]),
    (0x49, "mimeMediaType", &[]),
    (0x4a, "memberAttrName", &["member-attr-name", "member-attribute-name"]),
];

pub const PRINTER_STATE: &[Entry] = &[(3, "idle", &[]), (4, "processing", &[]), (5, "stopped", &[])];

pub const JOB_STATE: &[Entry] = &[
    (3, "pending", &[]),
    (4, "pending-held", &[]),
    (5, "processing", &[]),
    (6, "processing-stopped", &[]),
    (7, "canceled", &[]),
    (8, "aborted", &[]),
    (9, "completed", &[]),
];

pub const ORIENTATION: &[Entry] =
    &[(3, "portrait", &[]), (4, "landscape", &[]), (5, "reverse-landscape", &[]), (6, "reverse-portrait", &[])];

pub const PRINT_QUALITY: &[Entry] = &[(3, "draft", &[]), (4, "normal", &[]), (5, "high", &[])];

pub const FINISHINGS: &[Entry] = &[
    (3, "none", &[]),
    (4, "staple", &[]),
    (5, "punch", &[]),
    (6, "cover", &[]),
    (7, "bind", &[]),
    (8, "saddle-stitch", &[]),
    (9, "edge-stitch", &[]),
    (10, "fold", &[]),
    (11, "trim", &[]),
    (12, "bale", &[]),
    (13, "booklet-maker", &[]),
    (14, "jog-offset", &[]),
    (15, "coat", &[]),
    (16, "laminate", &[]),
    (20, "staple-top-left", &[]),
    (21, "staple-bottom-left", &[]),
    (22, "staple-top-right", &[]),
    (23, "staple-bottom-right", &[]),
    (24, "edge-stitch-left", &[]),
    (25, "edge-stitch-top", &[]),
    (26, "edge-stitch-right", &[]),
    (27, "edge-stitch-bottom", &[]),
    (28, "staple-dual-left", &[]),
    (29, "staple-dual-top", &[]),
    (30, "staple-dual-right", &[]),
    (31, "staple-dual-bottom", &[]),
    (32, "staple-triple-left", &[]),
    (33, "staple-triple-top", &[]),
    (34, "staple-triple-right", &[]),
    (35, "staple-triple-bottom", &[]),
    (50, "bind-left", &[]),
    (51, "bind-top", &[]),
    (52, "bind-right", &[]),
    (53, "bind-bottom", &[]),
    (60, "trim-after-pages", &[]),
    (61, "trim-after-documents", &[]),
    (62, "trim-after-copies", &[]),
    (63, "trim-after-job", &[]),
    (70, "punch-top-left", &[]),
    (71, "punch-bottom-left", &[]),
    (72, "punch-top-right", &[]),
    (73, "punch-bottom-right", &[]),
    (74, "punch-dual-left", &[]),
    (75, "punch-dual-top", &[]),
    (76, "punch-dual-right", &[]),
    (77, "punch-dual-bottom", &[]),
    (78, "punch-triple-left", &[]),
    (79, "punch-triple-top", &[]),
    (80, "punch-triple-right", &[]),
    (81, "punch-triple-bottom", &[]),
    (82, "punch-quad-left", &[]),
    (83, "punch-quad-top", &[]),
    (84, "punch-quad-right", &[]),
    (85, "punch-quad-bottom", &[]),
];

/// lower-case alphanumerics only: "Print-Job" == "PrintJob" == "print_job"
pub fn norm(s: &str) -> String {
    s.chars().filter(|c| c.is_ascii_alphanumeric()).map(|c| c.to_ascii_lowercase()).collect()
}

pub fn lookup(table: &'static [Entry], code: u32) -> Option<&'static Entry> {
    table.iter().find(|e| e.0 == code)
}

/// does identifier `ident` (any spelling convention) name registry entry `e`?
/// `prefix_ok` lets "CupsGetPrinters" match "CUPS-Get-Printers" etc. (same after norm).
pub fn names_entry(e: &Entry, ident: &str) -> bool {
    let n = norm(ident);
    norm(e.1) == n || e.2.iter().any(|a| norm(a) == n)
}

pub fn status_keyword(code: u32) -> Option<&'static str> {
    lookup(STATUS, code).map(|e| e.1)
}

/// does `ident` name ANY entry of the table (used for "symbol of a different code")
pub fn find_by_name(table: &'static [Entry], ident: &str) -> Option<&'static Entry> {
    table.iter().find(|e| names_entry(e, ident))
}
