//! Wire tree, encoder and strict decoder (RFC 8010 section 3).

#[derive(Clone, Debug, PartialEq, Eq)]
pub struct WMsg {
    pub version: u16,
    pub code: u16,
    pub id: u32,
    pub groups: Vec<WGroup>,
    pub data: Vec<u8>,
}

#[derive(Clone, Debug, PartialEq, Eq)]
pub struct WGroup {
    pub tag: u8,
    pub attrs: Vec<WAttr>,
}

/// attribute (or collection member when used inside `WVal::Coll`): name + 1..n values
#[derive(Clone, Debug, PartialEq, Eq)]
pub struct WAttr {
    pub name: Vec<u8>,
    pub values: Vec<WVal>,
}

#[derive(Clone, Debug, PartialEq, Eq)]
pub enum WVal {
    Scalar { tag: u8, body: Vec<u8> },
    Coll(Vec<WAttr>),
}

impl WVal {
    pub fn tag(&self) -> u8 {
        match self {
            WVal::Scalar { tag, .. } => *tag,
            WVal::Coll(_) => 0x34,
        }
    }
    pub fn depth(&self) -> usize {
        match self {
            WVal::Scalar { .. } => 0,
            WVal::Coll(m) => 1 + m.iter().flat_map(|a| a.values.iter()).map(|v| v.depth()).max().unwrap_or(0),
        }
    }
}

fn put_tnv(out: &mut Vec<u8>, tag: u8, name: &[u8], val: &[u8]) {
    out.push(tag);
    out.extend_from_slice(&(name.len() as u16).to_be_bytes());
    out.extend_from_slice(name);
    out.extend_from_slice(&(val.len() as u16).to_be_bytes());
    out.extend_from_slice(val);
}

fn put_value(out: &mut Vec<u8>, name: &[u8], v: &WVal) {
    // iterative to survive very deep trees
    enum Step<'a> {
        Val(&'a [u8], &'a WVal),
        MemberName(&'a [u8]),
        End,
    }
    let mut stack: Vec<Step> = vec![Step::Val(name, v)];
    while let Some(s) = stack.pop() {
        match s {
            Step::Val(name, WVal::Scalar { tag, body }) => put_tnv(out, *tag, name, body),
            Step::Val(name, WVal::Coll(members)) => {
                put_tnv(out, 0x34, name, &[]);
                stack.push(Step::End);
                for m in members.iter().rev() {
                    for v in m.values.iter().rev() {
                        stack.push(Step::Val(&[], v));
                    }
                    stack.push(Step::MemberName(&m.name));
                }
            }
            Step::MemberName(n) => put_tnv(out, 0x4a, &[], n),
            Step::End => put_tnv(out, 0x37, &[], &[]),
        }
    }
}

pub fn encode_attr(out: &mut Vec<u8>, a: &WAttr) {
    for (i, v) in a.values.iter().enumerate() {
        put_value(out, if i == 0 { &a.name } else { &[] }, v);
    }
}

/// header + attribute groups + end tag (no data)
pub fn encode_head(m: &WMsg) -> Vec<u8> {
    let mut out = Vec::new();
    out.extend_from_slice(&m.version.to_be_bytes());
    out.extend_from_slice(&m.code.to_be_bytes());
    out.extend_from_slice(&m.id.to_be_bytes());
    for g in &m.groups {
        out.push(g.tag);
        for a in &g.attrs {
            encode_attr(&mut out, a);
        }
    }
    out.push(0x03);
    out
}

pub fn encode(m: &WMsg) -> Vec<u8> {
    let mut out = encode_head(m);
    out.extend_from_slice(&m.data);
    out
}

#[derive(Clone, Debug, PartialEq, Eq)]
pub enum DecodeError {
    Truncated(usize),
    BadDelimiter { off: usize, tag: u8 },
    BadValueTag { off: usize, tag: u8 },
    ValueOutsideGroup(usize),
    AdditionalValueWithoutAttribute(usize),
    NamedAttributeInsideCollection(usize),
    BegCollectionNonEmpty(usize),
    EndCollectionMalformed(usize),
    EndCollectionWithoutBegin(usize),
    MemberNameOutsideCollection(usize),
    MemberValueWithoutName(usize),
    MemberWithoutValue(usize),
    UnterminatedCollection(usize),
    BadBody { off: usize, tag: u8, len: usize },
    DuplicateName { group: usize, name: Vec<u8> },
    DuplicateMember(usize),
    EmptyName(usize),
}

#[derive(Clone, Debug)]
pub struct Strictness {
    /// body widths / inner lengths per syntax (integer=4, boolean=1 with 0/1, ...)
    pub bodies: bool,
    /// names unique within a group, member names unique within a collection
    pub unique_names: bool,
}

impl Strictness {
    pub fn full() -> Self {
        Strictness { bodies: true, unique_names: true }
    }
}

/// Body validity per registered syntax (RFC 8010 section 3.9, table 7).
pub fn body_ok(tag: u8, b: &[u8]) -> bool {
    match tag {
        0x10 | 0x12 | 0x13 => b.is_empty(),
        0x21 | 0x23 => b.len() == 4,
        0x22 => b.len() == 1 && b[0] <= 1,
        0x31 => b.len() == 11,
        0x32 => b.len() == 9,
        0x33 => b.len() == 8,
        0x35 | 0x36 => {
            if b.len() < 4 {
                return false;
            }
            let l1 = u16::from_be_bytes([b[0], b[1]]) as usize;
            if b.len() < 2 + l1 + 2 {
                return false;
            }
            let l2 = u16::from_be_bytes([b[2 + l1], b[3 + l1]]) as usize;
            b.len() == 4 + l1 + l2
        }
        _ => true,
    }
}

struct Cur<'a> {
    b: &'a [u8],
    p: usize,
}
impl<'a> Cur<'a> {
    fn u8(&mut self) -> Result<u8, DecodeError> {
        let v = *self.b.get(self.p).ok_or(DecodeError::Truncated(self.p))?;
        self.p += 1;
        Ok(v)
    }
    fn u16(&mut self) -> Result<u16, DecodeError> {
        if self.p + 2 > self.b.len() {
            return Err(DecodeError::Truncated(self.p));
        }
        let v = u16::from_be_bytes([self.b[self.p], self.b[self.p + 1]]);
        self.p += 2;
        Ok(v)
    }
    fn take(&mut self, n: usize) -> Result<&'a [u8], DecodeError> {
        if self.p + n > self.b.len() {
            return Err(DecodeError::Truncated(self.p));
        }
        let s = &self.b[self.p..self.p + n];
        self.p += n;
        Ok(s)
    }
}

/// Offset just past the end-of-attributes tag of a well-formed message, if any.
pub fn head_len(bytes: &[u8]) -> Option<usize> {
    decode_strict(bytes, &Strictness { bodies: false, unique_names: false })
        .ok()
        .map(|m| bytes.len() - m.data.len())
}

pub fn decode_strict(bytes: &[u8], st: &Strictness) -> Result<WMsg, DecodeError> {
    let mut c = Cur { b: bytes, p: 0 };
    let version = c.u16()?;
    let code = c.u16()?;
    let id = ((c.u16()? as u32) << 16) | c.u16()? as u32;
    let mut groups: Vec<WGroup> = Vec::new();
    // stack of open collections: each is the member list under construction
    let mut open: Vec<Vec<WAttr>> = Vec::new();
    loop {
        let off = c.p;
        let tag = c.u8()?;
        if tag <= 0x0f {
            if !open.is_empty() {
                return Err(DecodeError::UnterminatedCollection(off));
            }
            match tag {
                0x03 => break,
                0x01 | 0x02 | 0x04 | 0x05 => groups.push(WGroup { tag, attrs: vec![] }),
                _ => return Err(DecodeError::BadDelimiter { off, tag }),
            }
            continue;
        }
        if !(0x10..=0x4a).contains(&tag) {
            return Err(DecodeError::BadValueTag { off, tag });
        }
        let nlen = c.u16()? as usize;
        let name = c.take(nlen)?;
        let vlen = c.u16()? as usize;
        let body = c.take(vlen)?;
        let group = match groups.last_mut() {
            Some(g) => g,
            None => return Err(DecodeError::ValueOutsideGroup(off)),
        };
        if !open.is_empty() {
            // inside a collection: every name-length must be 0
            if nlen != 0 {
                return Err(DecodeError::NamedAttributeInsideCollection(off));
            }
            match tag {
                0x4a => {
                    let members = open.last_mut().unwrap();
                    if let Some(last) = members.last() {
                        if last.values.is_empty() {
                            return Err(DecodeError::MemberWithoutValue(off));
                        }
                    }
                    if st.unique_names && members.iter().any(|m| m.name == body) {
                        return Err(DecodeError::DuplicateMember(off));
                    }
                    members.push(WAttr { name: body.to_vec(), values: vec![] });
                }
                0x37 => {
                    if vlen != 0 {
                        return Err(DecodeError::EndCollectionMalformed(off));
                    }
                    let members = open.pop().unwrap();
                    if let Some(last) = members.last() {
                        if last.values.is_empty() {
                            return Err(DecodeError::MemberWithoutValue(off));
                        }
                    }
                    let v = WVal::Coll(members);
                    if let Some(parent) = open.last_mut() {
                        match parent.last_mut() {
                            Some(m) => m.values.push(v),
                            None => return Err(DecodeError::MemberValueWithoutName(off)),
                        }
                    } else {
                        // closes a top-level collection value of the current attribute
                        group.attrs.last_mut().unwrap().values.push(v);
                    }
                }
                0x34 => {
                    if vlen != 0 {
                        return Err(DecodeError::BegCollectionNonEmpty(off));
                    }
                    if open.last().unwrap().last().is_none() {
                        return Err(DecodeError::MemberValueWithoutName(off));
                    }
                    open.push(vec![]);
                }
                _ => {
                    if st.bodies && !body_ok(tag, body) {
                        return Err(DecodeError::BadBody { off, tag, len: vlen });
                    }
                    match open.last_mut().unwrap().last_mut() {
                        Some(m) => m.values.push(WVal::Scalar { tag, body: body.to_vec() }),
                        None => return Err(DecodeError::MemberValueWithoutName(off)),
                    }
                }
            }
            continue;
        }
        // not inside a collection
        match tag {
            0x37 => return Err(DecodeError::EndCollectionWithoutBegin(off)),
            _ => {}
        }
        if nlen != 0 {
            if st.unique_names && group.attrs.iter().any(|a| a.name == name) {
                return Err(DecodeError::DuplicateName { group: groups.len() - 1, name: name.to_vec() });
            }
            group.attrs.push(WAttr { name: name.to_vec(), values: vec![] });
        } else if group.attrs.is_empty() {
            return Err(DecodeError::AdditionalValueWithoutAttribute(off));
        }
        if tag == 0x34 {
            if vlen != 0 {
                return Err(DecodeError::BegCollectionNonEmpty(off));
            }
            open.push(vec![]);
        } else {
            if st.bodies && !body_ok(tag, body) {
                return Err(DecodeError::BadBody { off, tag, len: vlen });
            }
            group.attrs.last_mut().unwrap().values.push(WVal::Scalar { tag, body: body.to_vec() });
        }
    }
    // note: a 0x4a at top level (outside any collection) is, per RFC 8010, just
    // a value of syntax memberAttrName; it is kept as a scalar above.
    let data = bytes[c.p..].to_vec();
    Ok(WMsg { version, code, id, groups, data })
}
