//! C09 (mandatory attribute order), C10 (builders vs reference requests),
//! C13 (printer-uri canonicalisation), C14 (transport URL mapping, via hook).

use crate::common::*;
use crate::uris::{self, Parts};
use http::Uri;
use ipp::operation::cups::{CupsDeletePrinter, CupsGetPrinters};
use ipp::operation::*;
use ipp::prelude::*;
use ippref::{MVal, Model, Strictness};
use std::collections::{BTreeMap, HashSet};
use std::io::Cursor;
use vkit::gen::{self, G1Cfg};
use vkit::json::{hex_short, J};
use vkit::mirror;
use vkit::out::Report;
use vkit::rng::{hash64, Rng};
use vkit::util::{catch, panic_site, par, threads, Args};

pub const OPS: [&str; 10] = ["print-job", "get-printer-attributes", "create-job", "send-document", "purge-jobs", "cancel-job", "get-job-attributes", "get-jobs", "cups-get-printers", "cups-delete-printer"];

#[derive(Clone, Debug)]
pub enum Call {
    UserName(String),
    JobName(String),
    Attribute(String, MVal),
    Attributes(Vec<(String, MVal)>),
    ReqAttr(String),
    ReqAttrs(Vec<String>),
    Last(bool),
}

#[derive(Clone, Debug)]
pub struct Program {
    pub op: usize,
    pub uri: String,
    pub job_id: i32,
    pub payload: Vec<u8>,
    pub calls: Vec<Call>,
    /// true: operation structs directly (PrintJob::new ...), false: IppOperationBuilder
    pub direct: bool,
}

fn sane_uri(rng: &mut Rng) -> String {
    loop {
        let p = if rng.chance(1, 3) { uris::random(rng) } else { rng.pick(uris::grid_small()).clone() };
        let s = p.to_uri();
        if s.parse::<Uri>().is_ok() {
            return s;
        }
    }
}

/// names a job attribute may carry: job-template names, operation / document attribute names a library might be tempted to
/// special-case, the header attribute names, look-alikes, and arbitrary strings
pub const JOB_ATTR_NAMES: [&str; 44] = [
    "copies", "sides", "media", "media-col", "print-quality", "finishings", "x", "y", "z", "copies",
    "document-format", "document-name", "compression", "document-natural-language", "ipp-attribute-fidelity", "job-name", "requesting-user-name",
    "job-priority", "job-hold-until", "job-sheets", "multiple-document-handling", "number-up", "orientation-requested", "page-ranges",
    "printer-resolution", "job-k-octets", "job-impressions", "job-media-sheets", "output-bin", "print-color-mode", "print-scaling",
    "attributes-charset", "attributes-natural-language", "printer-uri", "job-uri", "job-id", "last-document", "requested-attributes",
    "limit", "which-jobs", "my-jobs", "Document-Format", "document-format-default", "job-id ",
];

fn job_attr_name(rng: &mut Rng) -> String {
    if rng.chance(1, 12) {
        // an attribute with an empty name has no wire representation (RFC 8010: empty name = additional value): outside the domain
        let s = gen::gen_string(rng, false);
        if s.is_empty() { "x".to_string() } else { s }
    } else {
        rng.pick(&JOB_ATTR_NAMES).to_string()
    }
}

/// a job attribute: a fresh (name, value), or - so that values recur after something else was given for the name
/// (x, y, x) - an exact repetition of an earlier pair, or an earlier name with a fresh value
fn job_attr(rng: &mut Rng, cfg: &G1Cfg, history: &mut Vec<(String, MVal)>, depth: usize) -> (String, MVal) {
    let pair = if !history.is_empty() && rng.chance(1, 3) {
        let (n, v) = rng.pick(history).clone();
        if rng.chance(1, 2) {
            (n, v)
        } else {
            (n, gen::gen_value(rng, cfg, depth, false))
        }
    } else {
        (job_attr_name(rng), gen::gen_value(rng, cfg, depth, false))
    };
    history.push(pair.clone());
    pair
}

pub fn gen_program(rng: &mut Rng) -> Program {
    let op = rng.below(10) as usize;
    let mut calls = vec![];
    let ncalls = match rng.below(4) {
        0 => 0,
        1 => rng.range(1, 2),
        _ => rng.range(1, 7),
    };
    let cfg = G1Cfg { max_depth: 2, oob_nonempty: false, ..G1Cfg::default() };
    let mut history: Vec<(String, MVal)> = vec![];
    for _ in 0..ncalls {
        let c = match rng.below(7) {
            0 | 1 => Call::UserName(gen::gen_string(rng, false)),
            2 => Call::JobName(gen::gen_string(rng, false)),
            3 => {
                let (name, v) = job_attr(rng, &cfg, &mut history, 2);
                Call::Attribute(name, v)
            }
            4 => {
                let n = rng.range(0, 3);
                Call::Attributes((0..n).map(|_| job_attr(rng, &cfg, &mut history, 1)).collect())
            }
            5 => {
                if rng.chance(1, 2) {
                    Call::ReqAttr(gen::gen_string(rng, false))
                } else {
                    let n = rng.range(0, 3);
                    Call::ReqAttrs((0..n).map(|_| rng.pick(&["all", "printer-state", "printer-state-reasons", "media-col-database", "", "é"]).to_string()).collect())
                }
            }
            _ => Call::Last(rng.chance(1, 2)),
        };
        calls.push(c);
    }
    let payload = match rng.below(4) {
        0 => vec![],
        1 => rng.bytes(1),
        2 => {
            let n = rng.range(2, 3000);
            rng.bytes(n)
        }
        _ => b"%!PS-Adobe-3.0\n\x03\x01\x00".to_vec(),
    };
    Program { op, uri: sane_uri(rng), job_id: rng.i32(), payload, calls, direct: rng.chance(1, 3) }
}

/// calls that apply to this operation, in order
fn applicable(p: &Program) -> Vec<&Call> {
    p.calls
        .iter()
        .filter(|c| match (p.op, c) {
            (0, Call::UserName(_) | Call::JobName(_) | Call::Attribute(..) | Call::Attributes(_)) => true,
            (1, Call::ReqAttr(_) | Call::ReqAttrs(_)) => true,
            (2, Call::JobName(_) | Call::Attribute(..) | Call::Attributes(_)) => true,
            (3, Call::UserName(_) | Call::Last(_)) => true,
            (4 | 5 | 6 | 7, Call::UserName(_)) => true,
            _ => false,
        })
        .collect()
}

/// run the program against the library
pub fn build(p: &Program) -> IppRequestResponse {
    let uri: Uri = p.uri.parse().expect("uri");
    // the document comes from a source that fills the buffer (a Cursor) or, for every other length, from one that hands it
    // over in short reads of 1..9 octets (a pipe, a socket): "attached unmodified" whatever the source's read pattern
    let payload = || {
        if p.payload.len() % 2 == 1 {
            IppPayload::new(vkit::src::Scripted::new(std::sync::Arc::new(p.payload.clone()), vkit::src::Plan::chunk(1 + p.payload.len() % 9)).0)
        } else {
            IppPayload::new(Cursor::new(p.payload.clone()))
        }
    };
    let calls = applicable(p);
    let attr = |n: &String, v: &MVal| IppAttribute::new(n, mirror::to_ipp_value(v));
    let last_user = calls.iter().rev().find_map(|c| if let Call::UserName(s) = c { Some(s.clone()) } else { None });
    let last_job = calls.iter().rev().find_map(|c| if let Call::JobName(s) = c { Some(s.clone()) } else { None });
    let last_last = calls.iter().rev().find_map(|c| if let Call::Last(b) = c { Some(*b) } else { None });
    if p.direct {
        // operation structs: single-valued options are constructor arguments
        return match p.op {
            0 => {
                let mut o = PrintJob::new(uri, payload(), last_user.as_ref(), last_job.as_ref());
                for c in &calls {
                    match c {
                        Call::Attribute(n, v) => o.add_attribute(attr(n, v)),
                        Call::Attributes(l) => l.iter().for_each(|(n, v)| o.add_attribute(attr(n, v))),
                        _ => {}
                    }
                }
                o.into_ipp_request()
            }
            1 => {
                let mut names: Vec<String> = vec![];
                for c in &calls {
                    match c {
                        Call::ReqAttr(s) => names.push(s.clone()),
                        Call::ReqAttrs(l) => names.extend(l.iter().cloned()),
                        _ => {}
                    }
                }
                if names.is_empty() {
                    GetPrinterAttributes::new(uri).into_ipp_request()
                } else {
                    GetPrinterAttributes::with_attributes(uri, names).into_ipp_request()
                }
            }
            2 => {
                let mut o = CreateJob::new(uri, last_job.as_ref());
                for c in &calls {
                    match c {
                        Call::Attribute(n, v) => o.add_attribute(attr(n, v)),
                        Call::Attributes(l) => l.iter().for_each(|(n, v)| o.add_attribute(attr(n, v))),
                        _ => {}
                    }
                }
                o.into()
            }
            3 => SendDocument::new(uri, p.job_id, payload(), last_user.as_ref(), last_last.unwrap_or(true)).into(),
            4 => PurgeJobs::new(uri, last_user.as_ref()).into(),
            5 => CancelJob::new(uri, p.job_id, last_user.as_ref()).into(),
            6 => GetJobAttributes::new(uri, p.job_id, last_user.as_ref()).into(),
            7 => GetJobs::new(uri, last_user.as_ref()).into(),
            8 => CupsGetPrinters::new().into(),
            _ => CupsDeletePrinter::new(uri).into(),
        };
    }
    match p.op {
        0 => {
            let mut b = IppOperationBuilder::print_job(uri, payload());
            for c in &calls {
                b = match c {
                    Call::UserName(s) => b.user_name(s),
                    Call::JobName(s) => b.job_title(s),
                    Call::Attribute(n, v) => b.attribute(attr(n, v)),
                    Call::Attributes(l) => b.attributes(l.iter().map(|(n, v)| attr(n, v))),
                    _ => b,
                };
            }
            b.build().into_ipp_request()
        }
        1 => {
            let mut b = IppOperationBuilder::get_printer_attributes(uri);
            for c in &calls {
                b = match c {
                    Call::ReqAttr(s) => b.attribute(s),
                    Call::ReqAttrs(l) => b.attributes(l),
                    _ => b,
                };
            }
            b.build().into_ipp_request()
        }
        2 => {
            let mut b = IppOperationBuilder::create_job(uri);
            for c in &calls {
                b = match c {
                    Call::JobName(s) => b.job_name(s),
                    Call::Attribute(n, v) => b.attribute(attr(n, v)),
                    Call::Attributes(l) => b.attributes(l.iter().map(|(n, v)| attr(n, v))),
                    _ => b,
                };
            }
            b.build().into_ipp_request()
        }
        3 => {
            let mut b = IppOperationBuilder::send_document(uri, p.job_id, payload());
            for c in &calls {
                b = match c {
                    Call::UserName(s) => b.user_name(s),
                    Call::Last(x) => b.last(*x),
                    _ => b,
                };
            }
            b.build().into_ipp_request()
        }
        4 => calls.iter().fold(IppOperationBuilder::purge_jobs(uri), |b, c| if let Call::UserName(s) = c { b.user_name(s) } else { b }).build().into_ipp_request(),
        5 => calls.iter().fold(IppOperationBuilder::cancel_job(uri, p.job_id), |b, c| if let Call::UserName(s) = c { b.user_name(s) } else { b }).build().into_ipp_request(),
        6 => calls.iter().fold(IppOperationBuilder::get_job_attributes(uri, p.job_id), |b, c| if let Call::UserName(s) = c { b.user_name(s) } else { b }).build().into_ipp_request(),
        7 => calls.iter().fold(IppOperationBuilder::get_jobs(uri), |b, c| if let Call::UserName(s) = c { b.user_name(s) } else { b }).build().into_ipp_request(),
        8 => IppOperationBuilder::cups().get_printers().into_ipp_request(),
        _ => IppOperationBuilder::cups().delete_printer(uri).into_ipp_request(),
    }
}

/// reference canonical printer-uri from the target's components (independent of http::Uri)
pub fn ref_printer_uri(target: &str) -> Option<(Parts, Vec<String>)> {
    let p = uris::split(target)?;
    let mut accepted = vec![];
    let port = match &p.port {
        Some(s) if !s.is_empty() => format!(":{}", s.parse::<u32>().ok()?),
        _ => String::new(),
    };
    for scheme in if p.scheme == "https" || p.scheme == "ipps" { vec!["ipp", "ipps"] } else { vec!["ipp"] } {
        accepted.push(format!("{scheme}://{}{}{}", p.host, port, uris::norm_path(&p.path)));
        if p.path.is_empty() {
            accepted.push(format!("{scheme}://{}{}", p.host, port));
        }
    }
    Some((p, accepted))
}

/// reference request: (op code, op group, job group, payload)
pub struct Expected {
    pub code: u16,
    pub op: BTreeMap<String, MVal>,
    pub job: BTreeMap<String, MVal>,
    pub printer_uri_any_of: Vec<String>,
    pub payload: Vec<u8>,
}

pub fn expected(p: &Program) -> Expected {
    let code: u16 = [0x0002, 0x000B, 0x0005, 0x0006, 0x0012, 0x0008, 0x0009, 0x000A, 0x4002, 0x4004][p.op];
    debug_assert!(ippref::registry::lookup(ippref::registry::OPERATIONS, code as u32).is_some());
    let name = |s: &str| MVal::Text { tag: 0x42, s: s.to_string() };
    let mut op: BTreeMap<String, MVal> = BTreeMap::new();
    let mut job: BTreeMap<String, MVal> = BTreeMap::new();
    let calls = applicable(p);
    let mut req: Vec<MVal> = vec![];
    for c in &calls {
        match c {
            Call::UserName(s) => {
                op.insert("requesting-user-name".into(), name(s));
            }
            Call::JobName(s) => {
                op.insert("job-name".into(), name(s));
            }
            Call::Attribute(n, v) => {
                job.insert(n.clone(), v.clone().normalize());
            }
            Call::Attributes(l) => {
                for (n, v) in l {
                    job.insert(n.clone(), v.clone().normalize());
                }
            }
            Call::ReqAttr(s) => req.push(MVal::Text { tag: 0x44, s: s.clone() }),
            Call::ReqAttrs(l) => req.extend(l.iter().map(|s| MVal::Text { tag: 0x44, s: s.clone() })),
            Call::Last(_) => {}
        }
    }
    if !req.is_empty() {
        op.insert("requested-attributes".into(), MVal::Set(req).normalize());
    }
    if matches!(p.op, 3 | 5 | 6) {
        op.insert("job-id".into(), MVal::Integer(p.job_id));
    }
    if p.op == 3 {
        let last = calls.iter().rev().find_map(|c| if let Call::Last(b) = c { Some(*b) } else { None }).unwrap_or(true);
        op.insert("last-document".into(), MVal::Boolean(last));
    }
    let printer_uri_any_of = if p.op == 8 { vec![] } else { ref_printer_uri(&p.uri).map(|x| x.1).unwrap_or_default() };
    let payload = if matches!(p.op, 0 | 3) { p.payload.clone() } else { vec![] };
    Expected { code, op, job, printer_uri_any_of, payload }
}

/// compare one observed request (as a model) with the reference; returns a difference description
pub fn judge(e: &Expected, got: &Model, id_must_be_positive: bool) -> Option<String> {
    if got.version != 0x0101 {
        return Some(format!("version {:#06x}, expected 0x0101", got.version));
    }
    if got.code != e.code {
        return Some(format!("operation code {:#06x}, expected {:#06x}", got.code, e.code));
    }
    if id_must_be_positive && (got.id == 0 || got.id > i32::MAX as u32) {
        return Some(format!("request-id {} not in 1..2^31-1", got.id));
    }
    let want_groups: Vec<u8> = if e.job.is_empty() { vec![1] } else { vec![1, 2] };
    let tags: Vec<u8> = got.groups.iter().map(|g| g.tag).collect();
    if tags != want_groups {
        return Some(format!("groups {tags:?}, expected {want_groups:?}"));
    }
    let mut op = got.groups[0].attrs.clone();
    match op.remove("attributes-charset") {
        Some(MVal::Text { tag: 0x47, s }) if !s.is_empty() => {}
        other => return Some(format!("attributes-charset {other:?}")),
    }
    match op.remove("attributes-natural-language") {
        Some(MVal::Text { tag: 0x48, s }) if !s.is_empty() => {}
        other => return Some(format!("attributes-natural-language {other:?}")),
    }
    match (op.remove("printer-uri"), e.printer_uri_any_of.is_empty()) {
        (None, true) => {}
        (Some(MVal::Text { tag: 0x45, s }), false) if e.printer_uri_any_of.contains(&s) => {}
        (other, _) => return Some(format!("printer-uri {other:?}, expected one of {:?}", e.printer_uri_any_of)),
    }
    if op != e.op {
        let a: Vec<&String> = op.keys().collect();
        let b: Vec<&String> = e.op.keys().collect();
        if a != b {
            return Some(format!("operation attributes {a:?}, expected {b:?} (+charset, language, printer-uri)"));
        }
        for (k, v) in &op {
            if v != &e.op[k] {
                return Some(format!("operation attribute {k}: {} expected {}", mirror::vshort(v), mirror::vshort(&e.op[k])));
            }
        }
    }
    if !e.job.is_empty() {
        let jg = &got.groups[1].attrs;
        if jg != &e.job {
            let a: Vec<&String> = jg.keys().collect();
            let b: Vec<&String> = e.job.keys().collect();
            if a != b {
                return Some(format!("job attributes {a:?}, expected {b:?}"));
            }
            for (k, v) in jg {
                if v != &e.job[k] {
                    return Some(format!("job attribute {k}: {} expected {}", mirror::vshort(v), mirror::vshort(&e.job[k])));
                }
            }
        }
    }
    if got.data != e.payload {
        return Some(format!("payload {} bytes, expected {} (first difference at {})", got.data.len(), e.payload.len(), first_diff(&got.data, &e.payload)));
    }
    None
}

pub fn program_summary(p: &Program) -> String {
    let calls: Vec<String> = p
        .calls
        .iter()
        .map(|c| match c {
            Call::UserName(s) => format!("user_name({:?})", trunc(s)),
            Call::JobName(s) => format!("job_name({:?})", trunc(s)),
            Call::Attribute(n, v) => format!("attribute({n}={})", trunc(&mirror::vshort(v))),
            Call::Attributes(l) => format!("attributes({:?})", l.iter().map(|x| x.0.clone()).collect::<Vec<_>>()),
            Call::ReqAttr(s) => format!("attribute({:?})", trunc(s)),
            Call::ReqAttrs(l) => format!("attributes({l:?})"),
            Call::Last(b) => format!("last({b})"),
        })
        .collect();
    format!("{}{} uri={} job_id={} payload={}B calls=[{}]", OPS[p.op], if p.direct { " (struct)" } else { " (builder)" }, p.uri, p.job_id, p.payload.len(), calls.join(", "))
}

fn trunc(s: &str) -> String {
    let mut c = s.len().min(30);
    while !s.is_char_boundary(c) {
        c -= 1;
    }
    s[..c].to_string()
}

/// used by C07: header+attributes bytes of a builder request
pub fn builder_request_bytes(seed: u64, idx: u64) -> Vec<u8> {
    let mut r = Rng::fork(seed ^ 0xB11D, idx);
    loop {
        let p = gen_program(&mut r);
        let b = build(&p).to_bytes().to_vec();
        if b.len() <= 2048 {
            return b;
        }
    }
}

// =================================================================== C10

pub fn run_c10(args: &Args, tier: &str, seed: u64) -> Report {
    let n: u64 = args.u64("--cases", tier_pick(tier, 24_000, 500_000));
    let only = args.get("--only").and_then(|s| s.parse::<u64>().ok());
    let nthreads = if only.is_some() { 1 } else { threads() };
    let parts = par(nthreads, |shard| {
        let mut rep = Report::new("C10", tier, seed);
        let mut idx = shard as u64;
        while idx < n {
            if only.map(|o| o != idx).unwrap_or(false) {
                idx += nthreads as u64;
                continue;
            }
            let mut r = Rng::fork(seed ^ 0xC10, idx);
            let p = gen_program(&mut r);
            let replay = vec!["c10".to_string(), "--seed".into(), seed.to_string(), "--only".into(), idx.to_string()];
            rep.eval();
            rep.seen("operations", OPS[p.op]);
            rep.count(if p.direct { "via_operation_structs" } else { "via_builders" }, 1);
            let e = expected(&p);
            let summary = program_summary(&p);
            if !applicable(&p).is_empty() {
                rep.nontrivial(hash64(summary.as_bytes()));
            }
            if rep.samples.len() < 4 && idx % 211 == 1 {
                rep.sample(J::obj().with("case", idx).with("program", summary.as_str()));
            }
            let res = catch(|| {
                let mut req = build(&p);
                let mut got = mirror::from_ipp_head(req.header(), req.attributes()).normalize();
                let bytes = req.to_bytes().to_vec();
                let mut data = vec![];
                let pr = read_all_sync(req.payload_mut(), &mut data);
                got.data = data;
                (got, bytes, pr)
            });
            match res {
                Err(pn) => rep.violation(format!("C10:panic:{}", panic_site(&pn)), format!("case {idx}: {summary}: {pn}"), replay.clone()),
                Ok((got, bytes, pr)) => {
                    if pr.is_err() {
                        rep.violation("C10:payload-read-error", format!("case {idx}: {summary}: {pr:?}"), replay.clone());
                    }
                    if let Some(d) = judge(&e, &got, true) {
                        rep.violation(format!("C10:request-differs:{}", OPS[p.op]), format!("case {idx}: {summary}: in-memory request: {d}"), replay.clone());
                    } else {
                        // the same through the wire: reference decoder on to_bytes()
                        match ippref::decode_strict(&bytes, &Strictness::full()) {
                            Ok(w) => {
                                let mut m = ippref::interp(&w).normalize();
                                m.data = got.data.clone();
                                if let Some(d) = judge(&e, &m, true) {
                                    rep.violation(format!("C10:wire-request-differs:{}", OPS[p.op]), format!("case {idx}: {summary}: decoded bytes: {d}; bytes={}", hex_short(&bytes, 400)), replay.clone());
                                }
                            }
                            Err(er) => rep.violation("C10:wire-malformed", format!("case {idx}: {summary}: {er:?}; bytes={}", hex_short(&bytes, 400)), replay.clone()),
                        }
                    }
                }
            }
            idx += nthreads as u64;
        }
        // raw constructors: every Operation (as listed by the registry) with and without uri; every status
        if shard == 0 && only.is_none() {
            for e in ippref::registry::OPERATIONS {
                if let Some(op) = Operation::from_u16(e.0 as u16) {
                    for uri in [None, Some("ipps://u:p@printer:10631/ipp/print?q=1")] {
                        rep.eval();
                        rep.count("raw_request_constructor", 1);
                        let req = IppRequestResponse::new(IppVersion::v2_0(), op, uri.map(|u| u.parse().unwrap()));
                        let m = mirror::from_ipp_head(req.header(), req.attributes());
                        let mut ok = m.version == 0x0200 && m.code == e.0 as u16 && m.id >= 1 && m.groups.len() == 1 && m.groups[0].tag == 1;
                        let names: Vec<&String> = m.groups.first().map(|g| g.attrs.keys().collect()).unwrap_or_default();
                        let want = if uri.is_some() { vec!["attributes-charset", "attributes-natural-language", "printer-uri"] } else { vec!["attributes-charset", "attributes-natural-language"] };
                        ok &= names.iter().map(|s| s.as_str()).collect::<Vec<_>>() == want;
                        if uri.is_some() {
                            ok &= matches!(m.groups[0].attrs.get("printer-uri"), Some(MVal::Text { tag: 0x45, s }) if s == "ipp://printer:10631/ipp/print" || s == "ipps://printer:10631/ipp/print");
                        }
                        if !ok {
                            rep.violation("C10:raw-request-constructor", format!("IppRequestResponse::new(2.0, {:?}, {uri:?}) gave {m:?}", op), vec!["c10".into(), "--cases".into(), "0".into()]);
                        }
                    }
                }
            }
            // every status the library has a symbol for (all 65536 codes are tried, so the placeholder for unknown codes is included)
            for code in 0..=0xffffu32 {
                if let Some(st) = StatusCode::from_u16(code as u16) {
                    for id in [0u32, 1, 77, u32::MAX] {
                        rep.eval();
                        rep.count("raw_response_constructor", 1);
                        let resp = IppRequestResponse::new_response(IppVersion::v1_1(), st, id);
                        let m = mirror::from_ipp_head(resp.header(), resp.attributes());
                        let names: Vec<&String> = m.groups.first().map(|g| g.attrs.keys().collect()).unwrap_or_default();
                        let wire_code = resp.to_bytes().get(2..4).map(|b| u16::from_be_bytes([b[0], b[1]]));
                        if !(m.version == 0x0101 && m.code == code as u16 && wire_code == Some(code as u16) && resp.header().status_code() == st && m.id == id && m.groups.len() == 1 && m.groups[0].tag == 1 && names.iter().map(|s| s.as_str()).collect::<Vec<_>>() == vec!["attributes-charset", "attributes-natural-language"]) {
                            rep.violation("C10:raw-response-constructor", format!("new_response(1.1, {st:?}, {id}) gave {m:?}"), vec!["c10".into(), "--cases".into(), "0".into()]);
                        }
                    }
                }
            }
        }
        rep
    });
    let mut rep = Report::new("C10", tier, seed);
    for r in parts {
        rep.merge(r);
    }
    rep.rule = "G6: random builder programs over the 10 operations (via IppOperationBuilder or the operation structs), random sequences of setter calls (repeats: last wins for single-valued setters, accumulating setters keep all), arbitrary UTF-8 arguments, i32 boundary job ids, 0/1/n requested attributes, G5 target URIs, extra job attributes with values from G1, documents handed over by a buffer-filling source or in short reads of 1..9 octets; plus the raw request constructor for every registered Operation with/without URI and the response constructor for every registered status x ids. Oracle: reference request per operation (operation code from the reference registry, version 1.1, request-id in 1..2^31-1, operation group = charset + natural language + canonical printer-uri from the independent URI splitter + exactly the arguments' attributes with the stated syntaxes, job group = extras with last-wins, payload bytes) compared with the in-memory request and with the reference decoder's reading of to_bytes(); 'nothing else' = equality of attribute-name sets per group. Non-trivial = program with at least one applicable setter call; distinct by program text.".into();
    if only.is_none() {
        rep.require(rep.sets.get("operations").map(|s| s.len()).unwrap_or(0) == 10, "all 10 operations exercised");
    }
    rep
}

// =================================================================== C09

// ordinary attributes, incl. case variants and near misses of the specially placed names (which are NOT special)
const EXTRA_VOCAB: [&str; 40] = [
    "requesting-user-name", "document-format", "job-name", "compression", "ipp-attribute-fidelity", "document-name", "limit", "my-jobs", "which-jobs",
    "Job-Id", "JOB-ID", "Attributes-Charset", "Attributes-Natural-Language", "Printer-Uri", "job-ids", "printer-uri-supported", "Job-Uri",
    // every other operation attribute RFC 8011 / PWG 5100.x name for requests and responses (none of them has a mandated position)
    "status-message", "detailed-status-message", "document-access-error", "requested-attributes", "last-document", "message", "job-k-octets",
    "job-impressions", "job-media-sheets", "document-natural-language", "document-uri", "first-index", "first-job-id", "job-state-reasons",
    "notify-subscription-id", "notify-sequence-numbers", "purge-jobs", "job-hold-until", "printer-message-from-operator", "a", "z", "0", "~tilde",
];

pub fn run_c09(args: &Args, tier: &str, seed: u64) -> Report {
    let raw_ops: Vec<Operation> = (0..=0xffffu32).filter_map(|c| Operation::from_u16(c as u16)).collect();
    let raw_ops = std::sync::Arc::new(raw_ops);
    let n: u64 = args.u64("--cases", tier_pick(tier, 6_000, 200_000));
    let trials: usize = args.u64("--trials", tier_pick(tier, 32, 256)) as usize;
    let only = args.get("--only").and_then(|s| s.parse::<u64>().ok());
    let nthreads = if only.is_some() { 1 } else { threads() };
    let parts = par(nthreads, |shard| {
        let mut rep = Report::new("C09", tier, seed);
        let mut idx = shard as u64;
        while idx < n {
            if only.map(|o| o != idx).unwrap_or(false) {
                idx += nthreads as u64;
                continue;
            }
            let replay = vec!["c09".to_string(), "--seed".into(), seed.to_string(), "--only".into(), idx.to_string()];
            let mut r0 = Rng::fork(seed ^ 0xC09, idx);
            // base: 0 = builder program, 1 = raw request without uri, 2 = raw request with uri, 3 = response
            let base = match idx % 8 {
                0..=4 => 0,
                5 => 1,
                6 => 2,
                _ => 3,
            };
            // (reordering the group vector through groups_mut() is outside the property's quantifier - constructors, builders
            // and additions only - and is deliberately not generated)
            let reorder = false;
            let p = gen_program(&mut r0);
            // further additions, in random order, from a vocabulary containing the target attributes
            let nadd = r0.range(0, 6);
            let mut adds: Vec<(u8, String, MVal)> = vec![];
            let has_printer_uri = match base {
                0 => p.op != 8,
                2 => true,
                _ => false,
            };
            let cfg = G1Cfg { max_depth: 1, ..G1Cfg::default() };
            for _ in 0..nadd {
                let grp = *r0.pick(&[1u8, 1, 1, 2, 4]);
                let name = match r0.below(4) {
                    0 if has_printer_uri => "job-id".to_string(),
                    0 if base != 3 => "job-uri".to_string(),
                    1 => r0.pick(&["attributes-charset", "attributes-natural-language", "printer-uri"]).to_string(),
                    _ => r0.pick(&EXTRA_VOCAB).to_string(),
                };
                if name == "printer-uri" && !has_printer_uri {
                    continue; // printer-uri together with job-uri is not defined by the RFC
                }
                let v = match name.as_str() {
                    "job-id" => MVal::Integer(r0.i32()),
                    "job-uri" | "printer-uri" => {
                        // mostly short; sometimes long IRIs with multi-byte characters around the 1023/1024 octet mark
                        if r0.chance(1, 4) {
                            let n = *r0.pick(&[1000usize, 1020, 1022, 1023, 1024, 1025, 1030, 2048, 5000]);
                            let pad = r0.range(0, 3);
                            let mut s = format!("ipp://h/{}", "a".repeat(pad));
                            while s.len() < n {
                                s.push(*r0.pick(&['é', '€', '𝄞', 'x']));
                            }
                            MVal::Text { tag: 0x45, s }
                        } else {
                            MVal::Text { tag: 0x45, s: "ipp://h/jobs/1".into() }
                        }
                    }
                    "attributes-charset" => MVal::Text { tag: 0x47, s: "utf-8".into() },
                    "attributes-natural-language" => MVal::Text { tag: 0x48, s: "de".into() },
                    _ => gen::gen_value(&mut r0, &cfg, 1, false),
                };
                adds.push((grp, name, v));
            }
            r0.shuffle(&mut adds);
            let describe = format!(
                "base={} reordered-groups={reorder} adds={:?}",
                match base {
                    0 => program_summary(&p),
                    1 => "IppRequestResponse::new(.., None)".into(),
                    2 => "IppRequestResponse::new(.., Some(uri))".into(),
                    _ => "IppRequestResponse::new_response".into(),
                },
                adds.iter().map(|a| format!("{}:{}", a.0, a.1)).collect::<Vec<_>>()
            );
            let op_names: HashSet<String> = adds.iter().filter(|a| a.0 == 1).map(|a| a.1.clone()).collect();
            let expect_job_uri = op_names.contains("job-uri");
            // "for job operations addressed by printer-uri plus job-id, job-id fourth": judged for job operations only (a job-id
            // placed into the operation group of a printer operation or of a response has no mandated position)
            const JOB_OPS: [u16; 12] = [0x0006, 0x0007, 0x0008, 0x0009, 0x000c, 0x000d, 0x000e, 0x0014, 0x002c, 0x002f, 0x400d, 0x400e];
            let is_job_op = match base {
                0 => matches!(p.op, 3 | 5 | 6),
                2 => JOB_OPS.contains(&(raw_ops[idx as usize % raw_ops.len()] as u16)),
                _ => false,
            };
            let expect_job_id = has_printer_uri && is_job_op && (op_names.contains("job-id") || base == 0);
            let mut tails: HashSet<u64> = HashSet::new();
            let mut tail_len = 0usize;
            for t in 0..trials {
                rep.eval();
                let res = catch(|| {
                    let mut req = match base {
                        0 => build(&p),
                        // raw requests over every operation the library has a symbol for (by case index)
                        1 => IppRequestResponse::new(IppVersion::v1_1(), raw_ops[idx as usize % raw_ops.len()], None),
                        2 => IppRequestResponse::new(IppVersion::v1_1(), raw_ops[idx as usize % raw_ops.len()], Some("ipp://u:p@host:631/p?q".parse().unwrap())),
                        _ => IppRequestResponse::new_response(IppVersion::v1_1(), StatusCode::SuccessfulOk, 9),
                    };
                    // every third case encodes the message before and in between the additions (the encoding must not depend on
                    // the object's history: nothing remembered from an earlier to_bytes() may place a later addition)
                    let interleave = idx % 3 == 1;
                    if interleave {
                        std::hint::black_box(req.to_bytes().len());
                    }
                    for (k, (g, name, v)) in adds.iter().enumerate() {
                        req.attributes_mut().add(mirror::delim(*g), IppAttribute::new(name, mirror::to_ipp_value(v)));
                        if interleave && k % 2 == 0 {
                            std::hint::black_box(req.to_bytes().len());
                        }
                    }
                    if reorder {
                        let groups = req.attributes_mut().groups_mut();
                        if groups.len() >= 2 {
                            let n = groups.len();
                            groups.rotate_left(1 + (idx as usize / 5) % (n - 1));
                        }
                    }
                    req.to_bytes().to_vec()
                });
                let bytes = match res {
                    Ok(b) => b,
                    Err(pn) => {
                        rep.violation(format!("C09:panic:{}", panic_site(&pn)), format!("case {idx}: {describe}: {pn}"), replay.clone());
                        break;
                    }
                };
                // positional check on the reference decoder's reading (bodies not judged here: values are arbitrary)
                let w = match ippref::decode_strict(&bytes, &Strictness { bodies: false, unique_names: true }) {
                    Ok(w) => w,
                    Err(e) => {
                        rep.violation("C09:malformed", format!("case {idx} trial {t}: {describe}: {e:?}; bytes={}", hex_short(&bytes, 300)), replay.clone());
                        break;
                    }
                };
                let names: Vec<String> = w.groups.first().map(|g| g.attrs.iter().map(|a| ippref::lossy(&a.name)).collect()).unwrap_or_default();
                let mut bad: Option<(String, String)> = None;
                if w.groups.first().map(|g| g.tag) != Some(1) {
                    bad = Some(("first-group".into(), format!("first group tag {:?}", w.groups.first().map(|g| g.tag))));
                } else if names.first().map(|s| s.as_str()) != Some("attributes-charset") {
                    bad = Some(("charset-not-first".into(), format!("order {names:?}")));
                } else if names.get(1).map(|s| s.as_str()) != Some("attributes-natural-language") {
                    bad = Some(("language-not-second".into(), format!("order {names:?}")));
                } else if has_printer_uri && names.get(2).map(|s| s.as_str()) != Some("printer-uri") {
                    bad = Some(("printer-uri-not-third".into(), format!("order {names:?}")));
                } else if !has_printer_uri && expect_job_uri && names.get(2).map(|s| s.as_str()) != Some("job-uri") {
                    bad = Some(("job-uri-not-third".into(), format!("order {names:?}")));
                } else if expect_job_id && names.get(3).map(|s| s.as_str()) != Some("job-id") {
                    bad = Some(("job-id-not-fourth".into(), format!("order {names:?}")));
                }
                if let Some((k, d)) = bad {
                    rep.violation(format!("C09:{k}"), format!("case {idx} trial {t}/{trials}: {describe}: {d}"), replay.clone());
                    break;
                }
                let fixed = 2 + has_printer_uri as usize + (expect_job_id || (!has_printer_uri && expect_job_uri)) as usize;
                let tail: Vec<u8> = names.iter().skip(fixed).flat_map(|s| s.bytes().chain([0u8])).collect();
                tail_len = names.len().saturating_sub(fixed);
                tails.insert(hash64(&tail));
                if t == 0 && rep.samples.len() < 4 && idx % 173 == 2 {
                    rep.sample(J::obj().with("case", idx).with("setup", describe.as_str()).with("observed_order", J::Arr(names.iter().map(|s| J::Str(s.clone())).collect())));
                }
            }
            rep.count("distinct_tail_permutations", tails.len() as i64);
            if tail_len >= 3 {
                rep.count("cases_with_3plus_free_attributes", 1);
                if tails.len() > 1 {
                    rep.count("cases_with_3plus_free_attributes_reordered", 1);
                }
            }
            if expect_job_id {
                rep.count("cases_with_printer_uri_and_job_id", 1);
            }
            if !has_printer_uri && expect_job_uri {
                rep.count("cases_with_job_uri", 1);
            }
            if nadd > 0 || base == 0 {
                rep.nontrivial(hash64(describe.as_bytes()));
            }
            idx += nthreads as u64;
        }
        rep
    });
    let mut rep = Report::new("C09", tier, seed);
    for r in parts {
        rep.merge(r);
    }
    rep.rule = format!("Every constructor/builder program of C10 (or a raw request with/without URI, or a response), followed by 0..6 further IppAttributes::add calls in shuffled order from a vocabulary containing job-id, job-uri, the three header attributes and ordinary attributes, rebuilt {trials} times with fresh maps, every third case encoding the message before and between the additions, raw requests over every operation the library knows (how many cases showed more than one order of the unconstrained attributes is reported as evidence, not demanded: a sorting encoder shows one); oracle: positions in the reference decoder's reading of to_bytes(): operation group first, attributes-charset 1st, attributes-natural-language 2nd, printer-uri (or job-uri when there is no printer-uri) 3rd, job-id 4th when printer-uri and job-id are both present. printer-uri together with job-uri is not generated (undefined by RFC 8011). evaluations = instances judged; distinct = by setup text.");
    if only.is_none() {
        let e = rep.counters.get("cases_with_3plus_free_attributes").copied().unwrap_or(0);
        let m = rep.counters.get("cases_with_3plus_free_attributes_reordered").copied().unwrap_or(0);
        // diversity is observed and reported, not demanded: an encoder that sorts the remaining attributes (or ordered containers)
        // legitimately shows one order only
        rep.require(e > 30, &format!("enough cases with >= 3 free attributes ({e})"));
        rep.extra.insert("iteration_order_diversity".into(), J::Str(format!("{m}/{e} eligible cases saw more than one order of the remaining attributes on the wire across rebuilt instances")));
        rep.require(rep.counters.get("cases_with_printer_uri_and_job_id").copied().unwrap_or(0) > 50, "printer-uri + job-id cases");
        rep.require(rep.counters.get("cases_with_job_uri").copied().unwrap_or(0) > 10, "job-uri cases");
    }
    rep
}

// =================================================================== C13 / C14

fn check_canonical(rep: &mut Report, p: &Parts, via: &str, got: &str, replay: &[String]) {
    let target = p.to_uri();
    let viol = |rep: &mut Report, k: &str, why: String| {
        rep.violation(format!("C13:{k}"), format!("target {target:?} via {via}: printer-uri {got:?}: {why}"), replay.to_vec());
    };
    if got.contains("TAINT") {
        return viol(rep, "leak", "contains user-info or query material of the target".into());
    }
    let g = match uris::split(got) {
        Some(g) => g,
        None => return viol(rep, "unparsable", "result is not scheme://authority...".into()),
    };
    let scheme_ok = g.scheme == "ipp" || (g.scheme == "ipps" && (p.scheme == "ipps" || p.scheme == "https"));
    if !scheme_ok {
        return viol(rep, "scheme", format!("scheme {:?}", g.scheme));
    }
    if g.userinfo.is_some() {
        return viol(rep, "leak", "has a user-info part".into());
    }
    if g.query.is_some() {
        return viol(rep, "leak", "has a query part".into());
    }
    // "the same host": DNS names and IPv6 hex digits are case-insensitive
    if !g.host.eq_ignore_ascii_case(&p.host) {
        return viol(rep, "host", format!("host {:?} expected {:?}", g.host, p.host));
    }
    if g.port_num() != p.port_num() {
        return viol(rep, "port", format!("port {:?} expected {:?}", g.port, p.port));
    }
    if uris::norm_path(&g.path) != uris::norm_path(&p.path) {
        viol(rep, "path", format!("path {:?} expected {:?}", g.path, p.path));
    }
}

pub fn run_c13(args: &Args, tier: &str, seed: u64) -> Report {
    let grid = uris::grid();
    let nrand: u64 = args.u64("--cases", tier_pick(tier, 100_000, 5_000_000));
    let only = args.get("--only").and_then(|s| s.parse::<u64>().ok());
    let total = grid.len() as u64 + nrand;
    let nthreads = if only.is_some() { 1 } else { threads() };
    let parts = par(nthreads, |shard| {
        let mut rep = Report::new("C13", tier, seed);
        let mut idx = shard as u64;
        while idx < total {
            if only.map(|o| o != idx).unwrap_or(false) {
                idx += nthreads as u64;
                continue;
            }
            let p = if (idx as usize) < grid.len() { grid[idx as usize].clone() } else { uris::random(&mut Rng::fork(seed ^ 0xC13, idx)) };
            let s = p.to_uri();
            let replay = vec!["c13".to_string(), "--seed".into(), seed.to_string(), "--only".into(), idx.to_string()];
            let uri: Uri = match s.parse() {
                Ok(u) => u,
                Err(_) => {
                    rep.count("targets_refused_by_uri_parser", 1);
                    idx += nthreads as u64;
                    continue;
                }
            };
            rep.eval();
            if p.userinfo.is_some() || p.query.is_some() {
                rep.nontrivial(hash64(s.as_bytes()));
            }
            rep.seen("host_forms", if p.host.starts_with('[') { "ipv6" } else if p.host.chars().all(|c| c.is_ascii_digit() || c == '.') { "ipv4" } else { "reg-name" });
            rep.seen("schemes", p.scheme.clone());
            if rep.samples.len() < 4 && idx % 7919 == 11 {
                rep.sample(J::obj().with("target", s.as_str()).with("printer_uri", ipp::util::canonicalize_uri(&uri).to_string()));
            }
            // history independence: look-alike targets canonicalised first, on this thread, must not influence the judged call
            for nb in uris::neighbours(&p, idx) {
                if let Ok(u) = nb.parse::<Uri>() {
                    let _ = catch(|| ipp::util::canonicalize_uri(&u));
                    rep.count("look_alike_targets_canonicalised_before", 1);
                }
            }
            let r = catch(|| {
                let c = ipp::util::canonicalize_uri(&uri);
                let again = ipp::util::canonicalize_uri(&c);
                (c.to_string(), again.to_string())
            });
            match r {
                Err(pn) => rep.violation(format!("C13:panic:{}", panic_site(&pn)), format!("target {s:?}: {pn}"), replay.clone()),
                Ok((c, again)) => {
                    check_canonical(&mut rep, &p, "canonicalize_uri", &c, &replay);
                    if c != again {
                        rep.violation("C13:not-idempotent", format!("target {s:?}: canonical {c:?} re-canonicalised to {again:?}"), replay.clone());
                    }
                }
            }
            // every request constructor (9 take a URI) on a strided subset
            if idx % 16 == (seed % 16) || only.is_some() || s.len() > 900 {
                for op in [0usize, 1, 2, 3, 4, 5, 6, 7, 9] {
                    rep.eval();
                    rep.count("constructor_checks", 1);
                    let prog = Program { op, uri: s.clone(), job_id: 1, payload: vec![], calls: vec![Call::UserName("u".into())], direct: idx % 32 < 16 };
                    let r = catch(|| {
                        let req = build(&prog);
                        let pu = req.attributes().groups_of(DelimiterTag::OperationAttributes).next().and_then(|g| g.attributes().get("printer-uri")).map(|a| format!("{}", a.value()));
                        (pu, req.to_bytes().to_vec())
                    });
                    match r {
                        Err(pn) => rep.violation(format!("C13:panic:{}", panic_site(&pn)), format!("target {s:?} via {}: {pn}", OPS[op]), replay.clone()),
                        Ok((pu, bytes)) => {
                            match pu {
                                Some(pu) => check_canonical(&mut rep, &p, OPS[op], &pu, &replay),
                                None => rep.violation("C13:missing-printer-uri", format!("target {s:?} via {}: no printer-uri", OPS[op]), replay.clone()),
                            }
                            if bytes.windows(5).any(|w| w == b"TAINT") {
                                rep.violation("C13:leak", format!("target {s:?} via {}: request bytes contain user-info/query material", OPS[op]), replay.clone());
                            }
                        }
                    }
                }
                // the raw constructor, under every protocol version
                for (vname, version) in [("1.0", IppVersion::v1_0()), ("1.1", IppVersion::v1_1()), ("2.0", IppVersion::v2_0()), ("2.1", IppVersion::v2_1()), ("2.2", IppVersion::v2_2())] {
                    rep.eval();
                    rep.count("raw_constructor_checks", 1);
                    let how = format!("IppRequestResponse::new (IPP/{vname})");
                    match catch(|| {
                        let req = IppRequestResponse::new(version, Operation::GetPrinterAttributes, Some(uri.clone()));
                        let pu = req.attributes().groups_of(DelimiterTag::OperationAttributes).next().and_then(|g| g.attributes().get("printer-uri")).map(|a| format!("{}", a.value()));
                        (pu, req.to_bytes().to_vec())
                    }) {
                        Err(pn) => rep.violation(format!("C13:panic:{}", panic_site(&pn)), format!("target {s:?} via {how}: {pn}"), replay.clone()),
                        Ok((pu, bytes)) => {
                            match pu {
                                Some(pu) => check_canonical(&mut rep, &p, &how, &pu, &replay),
                                None => rep.violation("C13:missing-printer-uri", format!("target {s:?} via {how}: no printer-uri"), replay.clone()),
                            }
                            if bytes.windows(5).any(|w| w == b"TAINT") {
                                rep.violation("C13:leak", format!("target {s:?} via {how}: request bytes contain user-info/query material"), replay.clone());
                            }
                        }
                    }
                }
            }
            idx += nthreads as u64;
        }
        rep
    });
    let mut rep = Report::new("C13", tier, seed);
    for r in parts {
        rep.merge(r);
    }
    rep.extra.insert("grid_size".into(), J::Int(grid.len() as i64));
    rep.rule = "G5: target URIs assembled from known components: exhaustive grid (4 schemes x 10 hosts (reg-name incl. a trailing-dot FQDN, IPv4, IPv6 literals) x 8 port forms x 8 user-info forms (incl. raw @) x 9 paths x 6 queries) plus seeded random URIs (incl. paths of 1-20 KiB and registered-name hosts of 200-4000 octets); user-info and query carry TAINT markers. Oracle: components of the canonical printer-uri (own splitter, not http::Uri) vs the inputs: IPP scheme, same host, port iff given (numerically equal), same path (''=='/'), no user-info, no query, no marker anywhere in the printer-uri or in to_bytes() of requests from all 9 URI-taking constructors and the raw constructor under each of the five protocol versions; idempotence; each judged call is preceded by two look-alike targets (authority case swapped; other credentials / port / query / scheme / path case) so that a result remembered from an earlier call would show. Strings http::Uri refuses are counted and skipped. Non-trivial = target carrying user-info or a query.".into();
    if only.is_none() {
        rep.require(rep.sets.get("host_forms").map(|s| s.len()).unwrap_or(0) == 3, "reg-name, IPv4 and IPv6 hosts exercised");
        rep.require(rep.evaluations > grid.len() as u64 / 2, "most grid targets accepted by the URI parser");
    }
    rep
}

pub fn run_c14(args: &Args, tier: &str, seed: u64) -> Report {
    let grid = uris::grid();
    let nrand: u64 = args.u64("--cases", tier_pick(tier, 100_000, 5_000_000));
    let only = args.get("--only").and_then(|s| s.parse::<u64>().ok());
    let total = grid.len() as u64 + nrand;
    let nthreads = if only.is_some() { 1 } else { threads() };
    let parts = par(nthreads, |shard| {
        let mut rep = Report::new("C14", tier, seed);
        let mut idx = shard as u64;
        while idx < total {
            if only.map(|o| o != idx).unwrap_or(false) {
                idx += nthreads as u64;
                continue;
            }
            let mut p = if (idx as usize) < grid.len() { grid[idx as usize].clone() } else { uris::random(&mut Rng::fork(seed ^ 0xC14, idx)) };
            // every 997th target is padded to one of the largest sizes http::Uri accepts (65534 octets in total)
            if idx % 997 == 5 {
                let want = 65534 - (idx / 997 % 12) as usize;
                let cur = p.to_uri().len();
                if cur < want {
                    let mut path = if p.path.is_empty() { "/".to_string() } else { p.path.clone() };
                    path.push_str(&"a".repeat(want - cur - (path.len() - p.path.len())));
                    p.path = path;
                }
            }
            let s = p.to_uri();
            let replay = vec!["c14".to_string(), "--seed".into(), seed.to_string(), "--only".into(), idx.to_string()];
            let uri: Uri = match s.parse() {
                Ok(u) => u,
                Err(_) => {
                    rep.count("targets_refused_by_uri_parser", 1);
                    idx += nthreads as u64;
                    continue;
                }
            };
            rep.eval();
            rep.seen("schemes", p.scheme.clone());
            rep.seen("host_forms", if p.host.starts_with('[') { "ipv6" } else if p.host.chars().all(|c| c.is_ascii_digit() || c == '.') { "ipv4" } else { "reg-name" });
            if p.scheme.starts_with("ipp") {
                rep.nontrivial(hash64(s.as_bytes()));
            }
            // history independence: look-alike targets are mapped first, on this thread, and must not influence the judged call
            for nb in uris::neighbours(&p, idx) {
                if let Ok(u) = nb.parse::<Uri>() {
                    let _ = catch(|| ipp::client::verif_transport_url(&u));
                    rep.count("look_alike_targets_mapped_before", 1);
                }
            }
            let got = match catch(|| ipp::client::verif_transport_url(&uri)) {
                Ok(g) => g,
                Err(pn) => {
                    rep.violation(format!("C14:panic:{}", panic_site(&pn)), format!("target {s:?}: {pn}"), replay.clone());
                    idx += nthreads as u64;
                    continue;
                }
            };
            // the same through a client object: the URL a client contacts is the mapping of the target it *holds*, so a
            // constructor that rewrites its target (drops a port it takes for a default, fills in a path, canonicalises) shows here
            if idx % 4 == 1 {
                match catch(|| ipp::client::verif_transport_url(IppClient::new(uri.clone()).uri())) {
                    Ok(through) => {
                        rep.count("mapped_through_a_client_object", 1);
                        if through != got {
                            rep.violation("C14:mapping-through-client", format!("target {s:?}: IppClient::new(target) contacts {through:?}, the mapping of the target itself is {got:?}"), replay.clone());
                        }
                    }
                    Err(pn) => rep.violation(format!("C14:panic:{}", panic_site(&pn)), format!("IppClient::new({s:?}): {pn}"), replay.clone()),
                }
            }
            if rep.samples.len() < 4 && idx % 7919 == 13 {
                rep.sample(J::obj().with("target", s.as_str()).with("transport_url", got.as_str()));
            }
            let g = match uris::split(&got) {
                Some(g) => g,
                None => {
                    rep.violation("C14:unparsable", format!("target {s:?} -> {got:?}"), replay.clone());
                    idx += nthreads as u64;
                    continue;
                }
            };
            let want_scheme = match p.scheme.as_str() {
                "ipp" => "http",
                "ipps" => "https",
                other => other,
            };
            let mapped = p.scheme == "ipp" || p.scheme == "ipps";
            let want_port: Option<u32> = if mapped { Some(p.port_num().unwrap_or(631)) } else { p.port_num() };
            let mut wrong: Vec<String> = vec![];
            if g.scheme != want_scheme {
                wrong.push(format!("scheme {:?} expected {want_scheme:?}", g.scheme));
            }
            if g.userinfo != p.userinfo {
                wrong.push(format!("user-info {:?} expected {:?}", g.userinfo, p.userinfo));
            }
            if g.host != p.host {
                wrong.push(format!("host {:?} expected {:?}", g.host, p.host));
            }
            let port_wrong = g.port_num() != want_port || g.port.as_deref().map(|x| x.is_empty() || !x.chars().all(|c| c.is_ascii_digit())).unwrap_or(false);
            if uris::norm_path(&g.path) != uris::norm_path(&p.path) {
                wrong.push(format!("path {:?} expected {:?}", g.path, p.path));
            }
            if g.query != p.query {
                wrong.push(format!("query {:?} expected {:?}", g.query, p.query));
            }
            if port_wrong {
                if wrong.is_empty() && p.scheme == "ipps" && p.port.is_none() && g.port_num() == Some(443) {
                    rep.violation("C14:ipps-default-port-443", format!("target {s:?} -> {got:?}: port-less ipps target mapped to port 443, IANA/RFC 7472 assign 631"), replay.clone());
                } else {
                    wrong.push(format!("port {:?} expected {:?}", g.port, want_port));
                }
            }
            if !wrong.is_empty() {
                rep.violation(format!("C14:mapping:{}", wrong[0].split(' ').next().unwrap_or("")), format!("target {s:?} -> {got:?}: {}", wrong.join("; ")), replay.clone());
            }
            idx += nthreads as u64;
        }
        rep
    });
    let mut rep = Report::new("C14", tier, seed);
    for r in parts {
        rep.merge(r);
    }
    rep.extra.insert("grid_size".into(), J::Int(grid.len() as i64));
    rep.rule = "G5 grid (as C13) plus seeded random URIs through the cfg-guarded hook verif_transport_url (the private mapping the clients use). Oracle: component-wise comparison (own splitter): ipp->http, ipps->https, port 631 when absent, explicit port kept (numerically), host / user-info / path (''=='/') / query unchanged, http/https targets unchanged; each judged call is preceded by two look-alike targets (authority case swapped; other credentials / port / query / scheme / path case) so that a mapping remembered from an earlier call would show. Non-trivial = ipp/ipps target.".into();
    if only.is_none() {
        rep.require(rep.sets.get("schemes").map(|s| s.len()).unwrap_or(0) == 4, "all four schemes exercised");
    }
    rep
}
