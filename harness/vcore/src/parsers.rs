//! C04 (parser vs. reference interpretation), C05 (async == blocking),
//! C06 (exact consumption / fragmentation independence), C07 (truncation and faults).

use crate::common::*;
use crate::corpus::{self, Ctx};
use ipp::parser::{AsyncIppParser, IppParser};
use ipp::reader::{AsyncIppReader, IppReader};
use ippref::{Model, Strictness, WMsg};
use std::io::{ErrorKind, Read};
use std::sync::Arc;
use vkit::gen;
use vkit::json::{hex, hex_short, J};
use vkit::mirror;
use vkit::out::Report;
use vkit::rng::{hash64, Rng};
use vkit::src::{self, composition, Exec, Fallback, Plan, Scripted, Step};
use vkit::util::{catch, panic_site, par, threads, Args};

fn merge_all(pid: &str, tier: &str, seed: u64, parts: Vec<Report>) -> Report {
    let mut rep = Report::new(pid, tier, seed);
    for r in parts {
        rep.merge(r);
    }
    rep
}

fn wire_traits(rep: &mut Report, w: &WMsg) {
    fn walk(rep: &mut Report, v: &ippref::WVal, depth: usize, in_coll: bool) {
        match v {
            ippref::WVal::Scalar { tag, body } => {
                rep.seen("value_tags", format!("{tag:#04x}"));
                if ippref::TEXT_TAGS.contains(tag) && std::str::from_utf8(body).is_err() {
                    rep.count("non_utf8_text_bodies", 1);
                }
                if [255usize, 256, 65535].contains(&body.len()) {
                    rep.seen("body_boundary_lengths", body.len().to_string());
                }
            }
            ippref::WVal::Coll(ms) => {
                rep.max("max_collection_depth", depth as i64 + 1);
                if in_coll {
                    rep.count("nested_collections", 1);
                }
                for m in ms {
                    if m.values.len() > 1 {
                        rep.count("multi_valued_members", 1);
                    }
                    for x in &m.values {
                        walk(rep, x, depth + 1, true);
                    }
                }
            }
        }
    }
    if w.groups.first().map(|g| g.tag != 1).unwrap_or(false) {
        rep.count("not_starting_with_operation_group", 1);
    }
    if w.groups.is_empty() {
        rep.count("no_groups", 1);
    }
    let tags: Vec<u8> = w.groups.iter().map(|g| g.tag).collect();
    let mut sorted = tags.clone();
    sorted.sort();
    sorted.dedup();
    if sorted.len() != tags.len() {
        rep.count("repeated_groups", 1);
    }
    for g in &w.groups {
        if g.attrs.is_empty() {
            rep.count("empty_groups", 1);
        }
        for a in &g.attrs {
            if a.values.len() > 1 {
                let t0 = a.values[0].tag();
                if a.values.iter().any(|v| v.tag() != t0) {
                    rep.count("mixed_sets", 1);
                }
                if a.values.iter().all(|v| matches!(v, ippref::WVal::Coll(_))) {
                    rep.count("sets_of_collections", 1);
                }
            }
            for v in &a.values {
                walk(rep, v, 0, false);
            }
        }
    }
}

// =================================================================== C04

// bytes that are neither a delimiter the IANA registry knows (0x01-0x0a) nor in the range the registry assigns value
// syntaxes from (0x10-0x7f): these must be rejected. (0x06-0x0a are registered delimiters the pinned library happens not
// to support; 0x4b-0x7f are unassigned value tags a library may reject or hand out as opaque values: both unjudged.)
const MAYBE_TAGS: [u8; 9] = [0x06, 0x07, 0x08, 0x09, 0x0a, 0x4b, 0x4c, 0x60, 0x7f];
const BAD_TAGS: [u8; 12] = [0x00, 0x0b, 0x0c, 0x0d, 0x0e, 0x0f, 0x80, 0x81, 0xa5, 0xc3, 0xfe, 0xff];

pub(crate) fn c04_judge(rep: &mut Report, label: &str, bytes: Vec<u8>, expected: &Model, replay: &[String]) {
    rep.eval();
    let data = Arc::new(bytes);
    let (o, _) = sync_parse(&data, Plan::full());
    match o {
        Outcome::Ok(got) => {
            if let Some(d) = mirror::diff(expected, &got) {
                let class = if d.contains("names differ") {
                    "attribute-names"
                } else if d.starts_with("group sequence") {
                    "group-sequence"
                } else if d.starts_with("payload") {
                    "payload"
                } else if d.starts_with("header") {
                    "header"
                } else {
                    "value"
                };
                rep.violation(format!("C04:misread:{class}"), format!("{label}: RFC reading vs parser result: {d}; input={}", hex_short(&data, 500)), replay.to_vec());
            }
        }
        Outcome::Panic(p) => rep.violation(format!("C04:panic:{}", panic_site(&p)), format!("{label}: parser panicked on a well-formed message: {p}; input={}", hex_short(&data, 500)), replay.to_vec()),
        other => rep.violation(format!("C04:rejected:{}", other.class()), format!("{label}: parser rejected a well-formed message: {}; input={}", other.short(), hex_short(&data, 500)), replay.to_vec()),
    }
}

/// a well-formed message read as the second message of a stream, through the reader parse_parts() returned for the first
pub(crate) fn c04_second_on_stream(rep: &mut Report, label: &str, bytes: &[u8], expected: &Model, replay: &[String]) {
    // first message: version 2.0, Get-Jobs, id 7, one operation group with one attribute
    let mut stream: Vec<u8> = vec![0x02, 0x00, 0x00, 0x0a, 0x00, 0x00, 0x00, 0x07, 0x01, 0x21, 0x00, 0x01, b'f', 0x00, 0x04, 0, 0, 0, 1, 0x03];
    let first_len = stream.len();
    stream.extend_from_slice(bytes);
    let data = Arc::new(stream);
    let judge = |rep: &mut Report, how: &str, got: Result<Model, String>| {
        rep.eval();
        rep.count("second_message_on_a_reused_reader", 1);
        match got {
            Ok(m) => {
                if let Some(d) = mirror::diff(expected, &m) {
                    rep.violation("C04:misread:second-on-stream", format!("{label} as the second message on a stream ({how}): RFC reading vs parser result: {d}; input={}", hex_short(&data[first_len..], 400)), replay.to_vec());
                }
            }
            Err(e) => rep.violation("C04:rejected:second-on-stream", format!("{label} as the second message on a stream ({how}): {e}; input={}", hex_short(&data[first_len..], 400)), replay.to_vec()),
        }
    };
    // blocking
    let (src, _) = Scripted::new(data.clone(), Plan::full());
    let got = catch(move || -> Result<Model, String> {
        let (_h, _a, reader) = IppParser::new(IppReader::new(src)).parse_parts().map_err(|e| format!("first message rejected: {:?}", errk(&e)))?;
        let mut resp = IppParser::new(reader).parse().map_err(|e| format!("second message rejected: {:?}", errk(&e)))?;
        let mut m = mirror::from_ipp_head(resp.header(), resp.attributes());
        let mut rest = vec![];
        read_all_sync(resp.payload_mut(), &mut rest).map_err(|k| format!("payload: {k:?}"))?;
        m.data = rest;
        Ok(m)
    });
    judge(rep, "blocking", got.unwrap_or_else(|p| Err(format!("panic: {p}"))));
    // async
    let (src, sh) = Scripted::new(data.clone(), Plan::chunk(5));
    let got = catch(|| {
        src::run(
            async move {
                let (_h, _a, reader) = AsyncIppParser::new(AsyncIppReader::new(src)).parse_parts().await.map_err(|e| format!("first message rejected: {:?}", errk(&e)))?;
                let mut resp = AsyncIppParser::new(reader).parse().await.map_err(|e| format!("second message rejected: {:?}", errk(&e)))?;
                let mut m = mirror::from_ipp_head(resp.header(), resp.attributes());
                let mut rest = vec![];
                futures_util::io::AsyncReadExt::read_to_end(resp.payload_mut(), &mut rest).await.map_err(|e| format!("payload: {:?}", e.kind()))?;
                m.data = rest;
                Ok::<Model, String>(m)
            },
            &[sh.clone()],
            MAX_IDLE_POLLS,
        )
    });
    let got = match got {
        Ok((Exec::Ready(r), _)) => r,
        Ok((_, _)) => Err("async parse did not finish (deadlock / busy loop)".into()),
        Err(p) => Err(format!("panic: {p}")),
    };
    judge(rep, "async", got);
}

pub(crate) fn c04_bad_tags(rep: &mut Report, label: &str, bytes: &[u8], rng: &mut Rng, replay: &[String]) {
    let hl = match ippref::head_len(bytes) {
        Some(h) => h,
        None => return,
    };
    let toks = gen::tokenize(&bytes[..hl]);
    if toks.len() < 2 {
        return;
    }
    for _ in 0..3 {
        let (pos, _) = toks[rng.range(1, toks.len() - 1)];
        let bad = *rng.pick(&BAD_TAGS);
        let mut v = bytes.to_vec();
        v[pos] = bad;
        rep.eval();
        rep.count("bad_tag_insertions", 1);
        rep.seen("bad_tags_tried", format!("{bad:#04x}"));
        let data = Arc::new(v);
        let (o, _) = sync_parse(&data, Plan::full());
        if o != Outcome::Err(ErrK::InvalidTag(bad)) {
            rep.violation(
                format!("C04:bad-tag-not-rejected:{}", o.class()),
                format!("{label}: byte {bad:#04x} at tag position {pos} gave {} instead of InvalidTag({bad:#04x}); input={}", o.short(), hex_short(&data, 500)),
                replay.to_vec(),
            );
        }
    }
    // bytes a library may legitimately come to accept (delimiters registered after RFC 8010, unassigned value tags): not
    // demanded rejected, but never *skipped* - an accepted result must differ from what the parser makes of the message
    // with that byte, or with that whole element, deleted.
    let (pos, end) = toks[rng.range(1, toks.len() - 1)];
    let maybe = *rng.pick(&MAYBE_TAGS);
    let mut v = bytes.to_vec();
    v[pos] = maybe;
    rep.eval();
    rep.count("may_be_accepted_tag_insertions", 1);
    let data = Arc::new(v.clone());
    match sync_parse(&data, Plan::full()).0 {
        Outcome::Err(_) => rep.count("may_be_accepted_tag_rejected", 1),
        Outcome::Ok(got) => {
            rep.count("may_be_accepted_tag_accepted", 1);
            let mut without_byte = v.clone();
            without_byte.remove(pos);
            let mut without_element = v.clone();
            without_element.drain(pos..end);
            for (what, alt) in [("that byte", without_byte), ("that element", without_element)] {
                if let (Outcome::Ok(other), _) = sync_parse(&Arc::new(alt), Plan::full()) {
                    if mirror::diff(&other, &got).is_none() {
                        rep.violation(
                            "C04:bad-tag-skipped",
                            format!("{label}: byte {maybe:#04x} at tag position {pos} was accepted and the result equals that of the message without {what}: skipped, not rejected; input={}", hex_short(&data, 500)),
                            replay.to_vec(),
                        );
                    }
                }
            }
        }
        o => rep.violation(format!("C04:bad-tag:{}", o.class()), format!("{label}: byte {maybe:#04x} at tag position {pos} gave {}; input={}", o.short(), hex_short(&data, 500)), replay.to_vec()),
    }
}

pub fn run_c04(args: &Args, tier: &str, seed: u64) -> Report {
    let n: u64 = args.u64("--cases", tier_pick(tier, 30_000, 3_000_000));
    let tok_k: usize = args.u64("--tokens", tier_pick(tier, 4, 6)) as usize;
    let only = args.get("--only").and_then(|s| s.parse::<u64>().ok());
    let only_tok = args.get("--only-token").and_then(|s| s.parse::<u64>().ok());
    let nthreads = if only.is_some() || only_tok.is_some() { 1 } else { threads() };
    let shapes: Vec<Model> = gen::shapes();
    let nshapes = shapes.len() as u64;
    let tok_total: u64 = (0..=tok_k as u32).map(|l| 16u64.pow(l)).sum();
    let parts = par(nthreads, |shard| {
        let mut rep = Report::new("C04", tier, seed);
        // (1) wire trees
        let mut idx = shard as u64;
        while idx < n + nshapes && only_tok.is_none() {
            if only.map(|o| o != idx).unwrap_or(false) {
                idx += nthreads as u64;
                continue;
            }
            let w = if idx < nshapes {
                let mut m = shapes[idx as usize].clone();
                m.data.truncate(4096);
                ippref::model_to_wire_like(&m, None)
            } else {
                corpus::wellformed_wire(seed, idx, idx % 89 == 0)
            };
            let bytes = ippref::encode(&w);
            let replay = vec!["c04".to_string(), "--seed".into(), seed.to_string(), "--only".into(), idx.to_string()];
            // harness sanity: the reference decoder must read back its own encoding
            match ippref::decode_strict(&bytes, &Strictness { bodies: true, unique_names: true }) {
                Ok(back) if back == w => {}
                other => {
                    rep.inconclusive(format!("harness: reference codec does not round-trip case {idx}: {:?}", other.err()));
                    idx += nthreads as u64;
                    continue;
                }
            }
            let expected = ippref::interp(&w);
            wire_traits(&mut rep, &w);
            let h = hash64(&bytes);
            if w.groups.iter().any(|g| g.attrs.iter().any(|a| a.values.len() > 1 || matches!(a.values[0], ippref::WVal::Coll(_)))) || w.groups.len() >= 3 {
                rep.nontrivial(h);
            }
            if rep.samples.len() < 3 && idx % 1013 == 7 {
                rep.sample(J::obj().with("case", idx).with("input_hex", hex_short(&bytes, 200)).with("groups", w.groups.len()));
            }
            let label = format!("wire case {idx}");
            if idx % 8 == 0 {
                let mut r = Rng::fork(seed ^ 0xBAD7, idx);
                c04_bad_tags(&mut rep, &label, &bytes, &mut r, &replay);
            }
            // every 6th case: the message is the SECOND one on a stream - the first (a fixed short message without document) is
            // read with parse_parts(), and the reader it hands back is given to a new parser (blocking and async)
            if idx % 6 == 1 {
                c04_second_on_stream(&mut rep, &label, &bytes, &expected, &replay);
            }
            c04_judge(&mut rep, &label, bytes, &expected, &replay);
            idx += nthreads as u64;
        }
        // (2) every token sequence the reference decoder accepts
        let mut t = shard as u64;
        while t < tok_total && only.is_none() {
            if only_tok.map(|o| o != t).unwrap_or(false) {
                t += nthreads as u64;
                continue;
            }
            let mut i = t;
            let mut len = 0u32;
            loop {
                let c = 16u64.pow(len);
                if i < c {
                    break;
                }
                i -= c;
                len += 1;
            }
            let seq = gen::seq_of(i, 16, len as usize);
            let bytes = gen::token_msg(&seq);
            rep.count("token_sequences_enumerated", 1);
            if let Ok(w) = ippref::decode_strict(&bytes, &Strictness::full()) {
                rep.count("token_sequences_accepted_by_reference", 1);
                let label = format!("tokens [{}]", seq.iter().map(|&x| gen::TOKEN_NAMES[x]).collect::<Vec<_>>().join(" "));
                let replay = vec!["c04".to_string(), "--seed".into(), seed.to_string(), "--tokens".into(), tok_k.to_string(), "--only-token".into(), t.to_string()];
                if seq.len() >= 3 {
                    rep.nontrivial(hash64(&bytes));
                }
                c04_judge(&mut rep, &label, bytes, &ippref::interp(&w), &replay);
            }
            t += nthreads as u64;
        }
        rep
    });
    let mut rep = merge_all("C04", tier, seed, parts);
    rep.rule = format!("G2: wire-level message trees from the RFC 8010 grammar (groups x attributes x 1..n values x nested collections x every tag 0x10-0x4a with a syntactically valid body, non-UTF-8 text, repeated/empty groups, messages not starting with the operation group, mixed sets, multi-valued members, sets of collections, boundary lengths) alternating with G1 messages in reference encoding, plus the C01 shapes; plus every token sequence of length <= {tok_k} over the 16-token alphabet that the reference decoder accepts. Oracle: parse result via the public API == reference interpretation (interp) of the tree; every 8th tree also with 3 bytes that are neither registered delimiters (0x01-0x0a) nor in the value-tag range 0x10-0x7f (0x00, 0x0b-0x0f, 0x80-0xff) substituted at tag positions, demanding exactly InvalidTag(b), and with one byte a library may come to accept (0x06-0x0a, 0x4b-0x7f) substituted, demanding that it is rejected or represented, never skipped (an accepted result differs from the parse without that byte / that element). Non-trivial = a multi-valued attribute, a collection or >= 3 groups; distinct by hash of the input bytes.");
    if only.is_none() && only_tok.is_none() {
        let tags = rep.sets.get("value_tags").map(|s| s.len()).unwrap_or(0);
        rep.require(tags >= 57, &format!("every value tag 0x10-0x4a except the two structural ones exercised (saw {tags}/57)"));
        for k in ["mixed_sets", "multi_valued_members", "sets_of_collections", "repeated_groups", "empty_groups", "non_utf8_text_bodies", "not_starting_with_operation_group", "nested_collections", "bad_tag_insertions", "may_be_accepted_tag_insertions"] {
            rep.require(rep.counters.get(k).copied().unwrap_or(0) >= 20, &format!("{k} exercised"));
        }
    }
    rep.assumptions.push("cases the reference decoder rejects are not judged (three-valued), except the explicit bad-tag substitutions".into());
    rep
}

// =================================================================== schedules

/// pending/interrupt decoration of a composition: per-boundary not-ready pattern
pub(crate) fn decorate(chunks: &[usize], pattern: usize, salt: u64) -> Vec<Step> {
    let mut steps = vec![];
    for (i, &c) in chunks.iter().enumerate() {
        let p = if pattern == 7 { (hash64(&[(salt >> 8) as u8, salt as u8, i as u8, (i >> 8) as u8]) % 7) as usize } else { pattern };
        let pend = |d: bool| Step::Pending { deferred: d };
        match p {
            0 => {}
            1 => steps.push(pend(false)),
            2 => steps.push(pend(true)),
            3 => steps.extend([pend(false), pend(false)]),
            4 => steps.extend([pend(true), pend(true)]),
            5 => steps.extend([pend(false), pend(true)]),
            _ => steps.extend([pend(true), pend(false)]),
        }
        if p % 3 == 1 {
            steps.push(Step::Interrupted);
        }
        steps.push(Step::Chunk(c));
    }
    steps
}

pub(crate) fn random_composition(rng: &mut Rng, n: usize) -> Vec<usize> {
    let mut v = vec![];
    let mut left = n;
    let style = rng.below(4);
    while left > 0 {
        let c = match style {
            0 => rng.range(1, 3),
            1 => rng.range(1, 64),
            2 => *rng.pick(&[1usize, 2, 7, 8, 9, 255, 256, 4096, 65535]),
            _ => rng.range(1, left.max(1)),
        }
        .min(left);
        v.push(c);
        left -= c;
    }
    v
}

// =================================================================== C05

pub(crate) fn c05_compare(rep: &mut Report, label: &str, data: &Arc<Vec<u8>>, reference: &Outcome, plan: Plan, sched: &str, replay: &[String]) {
    rep.eval();
    let (a, _, st) = async_parse(data, plan);
    rep.count("async_polls", st.polls as i64);
    rep.count("async_pendings", st.pendings as i64);
    rep.count("deferred_wakes", st.deferred_wakes as i64);
    match (&a, reference) {
        (Outcome::Panic(_), Outcome::Panic(_)) => rep.count("both_panicked", 1),
        _ if &a == reference => {}
        _ => {
            let class = format!("{}-vs-{}", reference.class(), a.class());
            rep.violation(
                format!("C05:differ:{class}"),
                format!("{label} schedule {sched}: blocking {} vs async {}; input={}", reference.short(), a.short(), hex_short(data, 500)),
                replay.to_vec(),
            );
        }
    }
}

pub fn run_c05(args: &Args, tier: &str, seed: u64) -> Report {
    let only = args.get("--only").map(|s| s.to_string());
    let nthreads = if only.is_some() { 1 } else { threads() };
    let ctx = Ctx::new(tier, seed);
    let max_all = tier_pick(tier, 16usize, 21);
    // work list: (family, idx)
    let mut work: Vec<(String, u64)> = vec![];
    let stride = |fam: &str| -> u64 {
        match (fam, tier) {
            ("tails", "thorough") => 61,
            ("tails", _) => 211,
            ("grid", "thorough") => 1,
            ("grid", _) => 7,
            ("withlang", _) => 1,
            ("tokens", "thorough") => 5,
            ("tokens", _) => 11,
            ("bytes12", "thorough") => 7,
            ("bytes12", _) => 41,
            ("pairs", _) => 1,
            ("strings", _) => 1,
            ("preambles", _) => 1,
            ("chains", "thorough") => 1,
            ("chains", _) => 3,
            ("mutations", "thorough") => 4,
            ("mutations", _) => 9,
            _ => 1,
        }
    };
    for fam in corpus::HOSTILE {
        let total = ctx.count(fam);
        let s = stride(fam);
        let mut i = seed % s;
        while i < total {
            work.push((fam.to_string(), i));
            i += s;
        }
    }
    let nwf = tier_pick(tier, 6_000u64, 200_000);
    for i in 0..nwf {
        work.push(("wellformed".to_string(), i));
    }
    if let Some(o) = &only {
        let mut it = o.split(':');
        let f = it.next().unwrap().to_string();
        let i: u64 = it.next().and_then(|x| x.parse().ok()).unwrap_or(0);
        work = vec![(f, i)];
    }
    let work = Arc::new(work);
    let parts = par(nthreads, |shard| {
        let mut rep = Report::new("C05", tier, seed);
        let mut k = shard;
        let mut exh_by_len: std::collections::HashMap<usize, u64> = std::collections::HashMap::new();
        while k < work.len() {
            let (fam, idx) = &work[k];
            k += nthreads;
            let (bytes, label) = if fam == "wellformed" {
                let w = corpus::wellformed_wire(seed, *idx, idx % 97 == 0);
                (ippref::encode(&w), format!("wellformed {idx}"))
            } else {
                ctx.case(fam, *idx)
            };
            let replay = vec!["c05".to_string(), "--seed".into(), seed.to_string(), "--only".into(), format!("{fam}:{idx}")];
            let n = bytes.len();
            let data = Arc::new(bytes);
            let (reference, _) = sync_parse(&data, Plan::full());
            rep.seen("reference_outcome_classes", reference.class());
            if matches!(reference, Outcome::Ok(_)) {
                rep.nontrivial(hash64(&data));
            }
            if rep.samples.len() < 3 && k % 4099 < nthreads {
                rep.sample(J::obj().with("input", label.as_str()).with("input_hex", hex_short(&data, 120)).with("blocking_outcome", reference.short()));
            }
            // always: whole, 1 byte at a time, two random compositions with not-ready patterns
            c05_compare(&mut rep, &label, &data, &reference, Plan::full(), "full", &replay);
            // the header-and-attributes-only entry point: same outcome, and the same trailing bytes through the source that
            // reader.into_inner() hands back (whole delivery and 3-byte chunks)
            {
                let pref = sync_parse_parts(&data, Plan::full());
                for (plan, sched) in [(Plan::full(), "parts/full"), (Plan::chunk(3), "parts/uniform-3")] {
                    rep.eval();
                    rep.count("parse_parts_comparisons", 1);
                    let a = async_parse_parts(&data, plan);
                    let same = match (&a, &pref) {
                        (Outcome::Panic(_), Outcome::Panic(_)) => true,
                        _ => a == pref,
                    };
                    if !same {
                        rep.violation(format!("C05:differ:parts:{}-vs-{}", pref.class(), a.class()), format!("{label} schedule {sched}: blocking parse_parts+into_inner {} vs async {}; input={}", pref.short(), a.short(), hex_short(&data, 500)), replay.clone());
                    }
                }
            }
            c05_compare(&mut rep, &label, &data, &reference, Plan::chunk(1), "uniform-1", &replay);
            let mut r = Rng::fork(seed ^ 0xC05, hash64(&data));
            for t in 0..2u64 {
                let comp = random_composition(&mut r, n);
                let pat = r.below(8) as usize;
                c05_compare(&mut rep, &label, &data, &reference, Plan::steps(decorate(&comp, pat, t)), &format!("random{comp:?}/pat{pat}").chars().take(120).collect::<String>(), &replay);
            }
            rep.count("schedules_random", 2);
            // uniform chunk sizes 2..n for short and medium inputs
            if n <= 300 {
                for c in 2..=n.min(64) {
                    c05_compare(&mut rep, &label, &data, &reference, Plan::chunk(c), &format!("uniform-{c}"), &replay);
                    rep.count("schedules_uniform", 1);
                }
            }
            // all 2^(n-1) compositions for short messages (budgeted per shard and per length)
            let limit = |n: usize| -> u64 {
                if n <= 12 {
                    tier_pick(tier, 12, 40)
                } else if n <= 16 {
                    tier_pick(tier, 3, 10)
                } else {
                    tier_pick(tier, 0, 2)
                }
            };
            if n >= 9 && n <= max_all && (*exh_by_len.entry(n).or_insert(0) < limit(n) || only.is_some()) {
                *exh_by_len.entry(n).or_insert(0) += 1;
                rep.count("inputs_with_all_compositions", 1);
                rep.max("max_len_all_compositions", n as i64);
                for mask in 0..(1u64 << (n - 1)) {
                    let comp = composition(n, mask);
                    let steps: Vec<Step> = comp.iter().map(|&c| Step::Chunk(c)).collect();
                    c05_compare(&mut rep, &label, &data, &reference, Plan::steps(steps), &format!("composition mask {mask:#x}"), &replay);
                    rep.count("schedules_compositions", 1);
                    if n <= 10 {
                        for pat in 1..8 {
                            c05_compare(&mut rep, &label, &data, &reference, Plan::steps(decorate(&comp, pat, mask)), &format!("composition mask {mask:#x} pattern {pat}"), &replay);
                            rep.count("schedules_compositions_with_not_ready", 1);
                        }
                    }
                }
            }
        }
        rep
    });
    let mut rep = merge_all("C05", tier, seed, parts);
    rep.rule = format!("Inputs: strided sample of the C02 hostile corpus (tails, tag x length grid, with-language pairs, token sequences, mutations) and C04 well-formed trees. For each input the blocking parser's outcome on the whole string (Ok(header, groups, attributes, payload bytes) or Err(InvalidTag(b) | InvalidCollection | Io(kind))) is the reference; the async parser is polled by the manual executor under: whole, 1-byte chunks, uniform chunks 2..min(n,64), random compositions decorated with not-ready patterns (0-2 Pending per boundary, immediate or deferred wake), and for a budgeted set of inputs of length 9..{max_all} ALL 2^(n-1) compositions (for n <= 10 each additionally under 7 not-ready patterns). evaluations = (input, schedule) pairs compared; distinct_nontrivial = distinct inputs whose reference outcome is Ok.");
    if only.is_none() {
        rep.require(rep.counters.get("schedules_compositions").copied().unwrap_or(0) > 100_000, "exhaustive compositions executed");
        rep.require(rep.counters.get("deferred_wakes").copied().unwrap_or(0) > 10_000, "deferred wake-ups observed");
        rep.require(rep.sets.get("reference_outcome_classes").map(|s| s.len()).unwrap_or(0) >= 4, "ok / invalid-tag / invalid-collection / io outcomes all seen");
    }
    rep
}

// =================================================================== C06

pub(crate) struct Wf {
    pub bytes: Arc<Vec<u8>>,
    pub head_len: usize,
    pub label: String,
}

fn c06_payload(rng: &mut Rng, idx: u64, tier: &str) -> Vec<u8> {
    match idx % 8 {
        0 => vec![],
        1 => vec![*rng.pick(&[0x03u8, 0x00, 0x01, 0xff])],
        2 => vec![0x03, 0x03, 0x01, 0x21, 0, 1, b'x', 0, 4, 0, 0, 0, 9, 0x03],
        3 => {
            // a second complete IPP message
            let w = corpus::wellformed_wire(idx ^ 0x5EC0, idx, false);
            ippref::encode(&w)
        }
        4 | 5 => {
            let n = rng.range(1, 2000);
            rng.bytes(n)
        }
        6 => {
            let n = rng.range(8000, 70_000);
            rng.bytes(n)
        }
        _ => {
            let n = if idx % 1024 == 7 {
                // beyond the power-of-two sizes an implementation limit would sit at (2^20; thorough: 2^22, 2^24)
                let k = (idx / 1024) % 3;
                if tier == "thorough" {
                    [4_200_000, 1_100_000, if idx % 8192 == 7 { 17_000_000 } else { 2_300_000 }][k as usize]
                } else {
                    [1_100_000, 600_000, 2_300_000][k as usize]
                }
            } else if idx % 64 == 7 {
                600_000
            } else {
                rng.range(100, 9000)
            };
            rng.bytes(n)
        }
    }
}

pub(crate) fn c06_msg(seed: u64, idx: u64, tier: &str) -> Wf {
    let mut w = corpus::wellformed_wire(seed ^ 0xC06, idx, idx % 131 == 0);
    let mut r = Rng::fork(seed ^ 0xC0600, idx);
    w.data = c06_payload(&mut r, idx, tier);
    let head = ippref::encode_head(&w);
    let head_len = head.len();
    let mut bytes = head;
    bytes.extend_from_slice(&w.data);
    Wf { bytes: Arc::new(bytes), head_len, label: format!("case {idx}") }
}

/// one (message, plan) run of all four entry points; `reference` = unfragmented result
pub(crate) fn c06_run(rep: &mut Report, wf: &Wf, plan: &Plan, sched: &str, reference: &Model, replay: &[String]) {
    let payload = &wf.bytes[wf.head_len..];
    let viol = |rep: &mut Report, sig: &str, msg: String| {
        rep.violation(format!("C06:{sig}"), format!("{} schedule {sched}: {msg}; head={}B payload={}B head_hex={}", wf.label, wf.head_len, payload.len(), hex_short(&wf.bytes[..wf.head_len], 300)), replay.to_vec());
    };
    // The async entry points are compared with the async parser's OWN unfragmented result: C06 is fragmentation independence of each
    // parser, not agreement between the two (that is C05's clause; a change that makes the parsers differ alike under every
    // schedule keeps C06). If the async parser cannot read the message unfragmented, the blocking result stays the reference
    // (the `full` schedule then reports the error itself).
    let async_reference: Model = match async_parse(&wf.bytes, Plan::full()).0 {
        Outcome::Ok(m) => {
            let mut m = *m;
            m.data = payload.to_vec();
            m
        }
        _ => reference.clone(),
    };
    // --- blocking parse_parts: reader must sit exactly on the first payload byte
    rep.eval();
    let (src, shared) = Scripted::new(wf.bytes.clone(), plan.clone());
    match catch(move || IppParser::new(IppReader::new(src)).parse_parts()) {
        Ok(Ok((h, attrs, reader))) => {
            let pos = shared.pos();
            if pos != wf.head_len {
                viol(rep, "blocking-parts-position", format!("after parse_parts the source had delivered {pos} bytes, end-of-attributes tag ends at {}", wf.head_len));
            }
            let mut m = mirror::from_ipp_head(&h, &attrs);
            let mut inner = reader.into_inner();
            let mut rest = vec![];
            if read_all_sync(&mut inner as &mut dyn Read, &mut rest).is_err() || rest != payload {
                let p = first_diff(&rest, payload);
                viol(rep, "blocking-parts-rest", format!("reader returned by parse_parts yields {} bytes, expected {}; first difference at {p}", rest.len(), payload.len()));
            }
            m.data = payload.to_vec();
            if &m != reference {
                viol(rep, "blocking-parts-result", format!("result differs from the unfragmented parse: {:?}", mirror::diff(reference, &m)));
            }
        }
        Ok(Err(e)) => viol(rep, "blocking-parts-error", format!("parse_parts failed: {:?}", errk(&e))),
        Err(p) => viol(rep, "blocking-parts-panic", p),
    }
    // --- blocking parse: nothing beyond the end tag consumed at return; payload intact
    rep.eval();
    let (src, shared) = Scripted::new(wf.bytes.clone(), plan.clone());
    // every other schedule builds the reader through its From impl and takes the payload out with into_payload()
    let alt = sched.len() % 2 == 1;
    match catch(move || if alt { IppParser::new(src).parse() } else { IppParser::new(IppReader::new(src)).parse() }) {
        Ok(Ok(mut resp)) => {
            let pos = shared.pos();
            if pos != wf.head_len {
                viol(rep, "blocking-parse-position", format!("at return of parse the source had delivered {pos} bytes, end-of-attributes tag ends at {}", wf.head_len));
            }
            let mut m = mirror::from_ipp_head(resp.header(), resp.attributes());
            let mut rest = vec![];
            let r = if alt {
                let mut p = resp.into_payload();
                read_all_sync(&mut p, &mut rest)
            } else {
                // a read into an empty buffer returns 0 and must not disturb what follows (consumers that fill fixed blocks do this)
                match resp.payload_mut().read(&mut []) {
                    Ok(0) => read_all_sync(resp.payload_mut(), &mut rest),
                    Ok(n) => {
                        viol(rep, "blocking-parse-payload", format!("a zero-length read on the payload returned {n}"));
                        Ok(())
                    }
                    Err(e) => Err(e.kind()),
                }
            };
            if r.is_err() || rest != payload {
                let p = first_diff(&rest, payload);
                viol(rep, "blocking-parse-payload", format!("payload {} bytes ({r:?}), expected {}; first difference at {p}", rest.len(), payload.len()));
            }
            m.data = payload.to_vec();
            if &m != reference {
                viol(rep, "blocking-parse-result", format!("result differs from the unfragmented parse: {:?}", mirror::diff(reference, &m)));
            }
        }
        Ok(Err(e)) => viol(rep, "blocking-parse-error", format!("parse failed: {:?}", errk(&e))),
        Err(p) => viol(rep, "blocking-parse-panic", p),
    }
    // --- async parse_parts
    rep.eval();
    let (src, shared) = Scripted::new(wf.bytes.clone(), plan.clone());
    let sh = [shared.clone()];
    match catch(|| src::run(AsyncIppParser::new(AsyncIppReader::new(src)).parse_parts(), &sh, MAX_IDLE_POLLS)) {
        Ok((Exec::Ready(Ok((h, attrs, reader))), st)) => {
            rep.count("async_pendings", st.pendings as i64);
            let pos = shared.pos();
            if pos != wf.head_len {
                viol(rep, "async-parts-position", format!("after parse_parts the source had delivered {pos} bytes, end-of-attributes tag ends at {}", wf.head_len));
            }
            let mut m = mirror::from_ipp_head(&h, &attrs);
            let mut inner = reader.into_inner();
            let (r, _) = src::run(
                async {
                    let mut rest = vec![];
                    futures_util::io::AsyncReadExt::read_to_end(&mut inner, &mut rest).await.map(|_| rest)
                },
                &sh,
                MAX_IDLE_POLLS,
            );
            match r {
                Exec::Ready(Ok(rest)) if rest == payload => {}
                Exec::Ready(Ok(rest)) => viol(rep, "async-parts-rest", format!("reader returned by parse_parts yields {} bytes, expected {}; first difference at {}", rest.len(), payload.len(), first_diff(&rest, payload))),
                other => viol(rep, "async-parts-rest", format!("reading the rest failed: {:?}", other)),
            }
            m.data = payload.to_vec();
            if m != async_reference {
                viol(rep, "async-parts-result", format!("result differs from the unfragmented parse: {:?}", mirror::diff(&async_reference, &m)));
            }
        }
        Ok((Exec::Ready(Err(e)), _)) => viol(rep, "async-parts-error", format!("parse_parts failed: {:?}", errk(&e))),
        Ok((other, _)) => viol(rep, "async-parts-hang", format!("{:?}", matches!(other, Exec::Deadlock))),
        Err(p) => viol(rep, "async-parts-panic", p),
    }
    // --- async parse (payload through AsyncRead)
    rep.eval();
    let (o, shared, st) = {
        // position at return is checked inside a dedicated future
        let (src, shared) = Scripted::new(wf.bytes.clone(), plan.clone());
        let sh = [shared.clone()];
        let sh2 = shared.clone();
        let head_len = wf.head_len;
        let r = catch(|| {
            src::run(
                async move {
                    match AsyncIppParser::new(AsyncIppReader::new(src)).parse().await {
                        Ok(mut resp) => {
                            let pos = sh2.pos();
                            let mut m = mirror::from_ipp_head(resp.header(), resp.attributes());
                            let mut rest = vec![];
                            // (a zero-length read first, as in the blocking case)
                            let z = futures_util::io::AsyncReadExt::read(resp.payload_mut(), &mut []).await;
                            let rr = futures_util::io::AsyncReadExt::read_to_end(resp.payload_mut(), &mut rest).await;
                            m.data = rest;
                            Ok((pos, m, rr.is_ok() && matches!(z, Ok(0)), head_len))
                        }
                        Err(e) => Err(errk(&e)),
                    }
                },
                &sh,
                MAX_IDLE_POLLS,
            )
        });
        match r {
            Ok((e, st)) => (Ok(e), shared, st),
            Err(p) => (Err(p), shared, Default::default()),
        }
    };
    let _ = shared;
    rep.count("async_pendings", st.pendings as i64);
    rep.count("deferred_wakes", st.deferred_wakes as i64);
    match o {
        Ok(Exec::Ready(Ok((pos, m, ok, head_len)))) => {
            if pos != head_len {
                viol(rep, "async-parse-position", format!("at return of parse the source had delivered {pos} bytes, end-of-attributes tag ends at {head_len}"));
            }
            if !ok || m.data != payload {
                viol(rep, "async-parse-payload", format!("payload {} bytes (ok={ok}), expected {}; first difference at {}", m.data.len(), payload.len(), first_diff(&m.data, payload)));
            }
            let mut m2 = m;
            m2.data = payload.to_vec();
            if m2 != async_reference {
                viol(rep, "async-parse-result", format!("result differs from the unfragmented parse: {:?}", mirror::diff(&async_reference, &m2)));
            }
        }
        Ok(Exec::Ready(Err(e))) => viol(rep, "async-parse-error", format!("parse failed: {e:?}")),
        Ok(_) => viol(rep, "async-parse-hang", "deadlock or busy loop".into()),
        Err(p) => viol(rep, "async-parse-panic", p),
    }
}

/// cross reads: the payload of a message parsed by one parser, read through the other interface
/// (async-parsed payload via blocking Read = block_on bridge; blocking-parsed payload via AsyncRead = AllowStdIo bridge),
/// with not-ready / interrupted results inside the payload region
pub(crate) fn c06_cross(rep: &mut Report, wf: &Wf, rng: &mut Rng, replay: &[String]) {
    let payload = &wf.bytes[wf.head_len..];
    if payload.is_empty() {
        return;
    }
    let mk_steps = |rng: &mut Rng, is_async: bool| -> Vec<Step> {
        let mut steps = vec![];
        for i in 0..rng.range(2, 12) {
            if is_async {
                steps.push(Step::Pending { deferred: i % 2 == 1 });
            } else {
                steps.push(Step::Interrupted);
            }
            steps.push(Step::Chunk(rng.range(1, payload.len().max(1).min(5000))));
        }
        steps
    };
    // async parse, then blocking read of the payload
    rep.eval();
    rep.count("cross_async_parse_blocking_payload", 1);
    let plan = Plan { steps: mk_steps(rng, true), fallback: Fallback::Full, fail_at: None, steps_start: wf.head_len, fail_once: false, thread_wake: true };
    let (src, shared) = Scripted::new(wf.bytes.clone(), plan);
    let sh = [shared];
    let parsed = catch(|| src::run(AsyncIppParser::new(AsyncIppReader::new(src)).parse(), &sh, MAX_IDLE_POLLS));
    match parsed {
        Ok((Exec::Ready(Ok(resp)), _)) => {
            let (tx, rx) = std::sync::mpsc::channel();
            std::thread::spawn(move || {
                let mut resp = resp;
                let mut rest = vec![];
                let r = catch(|| read_all_sync(resp.payload_mut(), &mut rest));
                let _ = tx.send((r, rest));
            });
            match rx.recv_timeout(std::time::Duration::from_secs(300)) {
                Ok((Ok(Ok(())), rest)) if rest == payload => {}
                Ok((Ok(r), rest)) => rep.violation(
                    "C06:cross:async-parsed-payload-via-blocking-read",
                    format!("{}: payload of an async-parsed message read through std::io::Read with a not-ready source: {r:?}, {} of {} bytes, first difference at {}", wf.label, rest.len(), payload.len(), first_diff(&rest, payload)),
                    replay.to_vec(),
                ),
                Ok((Err(p), _)) => rep.violation("C06:cross:panic", format!("{}: {p}", wf.label), replay.to_vec()),
                Err(_) => rep.inconclusive(format!("watchdog: blocking read of an async payload did not finish within 300 s ({})", wf.label)),
            }
        }
        Ok((Exec::Ready(Err(e)), _)) => rep.violation("C06:cross:parse-error", format!("{}: {:?}", wf.label, errk(&e)), replay.to_vec()),
        Ok(_) => rep.violation("C06:cross:hang", wf.label.clone(), replay.to_vec()),
        Err(p) => rep.violation("C06:cross:panic", format!("{}: {p}", wf.label), replay.to_vec()),
    }
    // blocking parse, then async read of the payload
    rep.eval();
    rep.count("cross_blocking_parse_async_payload", 1);
    let plan = Plan { steps: mk_steps(rng, false), fallback: Fallback::Full, fail_at: None, steps_start: wf.head_len, fail_once: false, thread_wake: false };
    let (src, shared) = Scripted::new(wf.bytes.clone(), plan);
    let sh = [shared];
    match catch(move || IppParser::new(IppReader::new(src)).parse()) {
        Ok(Ok(mut resp)) => {
            let r = catch(|| {
                src::run(
                    async {
                        let mut rest = vec![];
                        futures_util::io::AsyncReadExt::read_to_end(resp.payload_mut(), &mut rest).await.map(|_| rest)
                    },
                    &sh,
                    MAX_IDLE_POLLS,
                )
            });
            match r {
                Ok((Exec::Ready(Ok(rest)), _)) if rest == payload => {}
                Ok((Exec::Ready(other), _)) => rep.violation(
                    "C06:cross:blocking-parsed-payload-via-async-read",
                    format!("{}: payload of a blocking-parsed message read through AsyncRead with interrupted reads: {:?} (expected {} bytes)", wf.label, other.map(|v| v.len()).map_err(|e| e.kind()), payload.len()),
                    replay.to_vec(),
                ),
                Ok(_) => rep.violation("C06:cross:hang", wf.label.clone(), replay.to_vec()),
                Err(p) => rep.violation("C06:cross:panic", format!("{}: {p}", wf.label), replay.to_vec()),
            }
        }
        Ok(Err(e)) => rep.violation("C06:cross:parse-error", format!("{}: {:?}", wf.label, errk(&e)), replay.to_vec()),
        Err(p) => rep.violation("C06:cross:panic", format!("{}: {p}", wf.label), replay.to_vec()),
    }
}

pub fn run_c06(args: &Args, tier: &str, seed: u64) -> Report {
    let n: u64 = args.u64("--cases", tier_pick(tier, 4_000, 60_000));
    let only = args.get("--only").and_then(|s| s.parse::<u64>().ok());
    let nthreads = if only.is_some() { 1 } else { threads() };
    let max_all = tier_pick(tier, 14usize, 20);
    // deterministic prefix: the hand-enumerated shapes (all boundary lengths, every kind, nested forms) in reference encoding
    let shapes: Vec<Model> = gen::shapes();
    let nshapes = shapes.len() as u64;
    let n = n + nshapes;
    let parts = par(nthreads, |shard| {
        let mut rep = Report::new("C06", tier, seed);
        let mut idx = shard as u64;
        let mut exhaustive = 0;
        while idx < n {
            if only.map(|o| o != idx).unwrap_or(false) {
                idx += nthreads as u64;
                continue;
            }
            let mut wf = if idx >= n - nshapes {
                let m = &shapes[(idx - (n - nshapes)) as usize];
                let w = ippref::model_to_wire_like(m, None);
                let head = ippref::encode_head(&w);
                let head_len = head.len();
                let mut bytes = head;
                bytes.extend_from_slice(&m.data[..m.data.len().min(4096)]);
                if m.data.is_empty() {
                    bytes.extend_from_slice(b"payload after a shape");
                }
                Wf { bytes: Arc::new(bytes), head_len, label: format!("shape {}", idx - (n - nshapes)) }
            } else {
                c06_msg(seed, idx, tier)
            };
            // every 5th case: a short message so that all compositions are feasible
            if idx % 5 == 0 && idx < n - nshapes {
                let (b, _) = Ctx::short_wellformed(seed, idx);
                let hl = ippref::head_len(&b).unwrap();
                let mut bytes = b[..hl].to_vec();
                let mut r = Rng::fork(seed ^ 0xC0601, idx);
                bytes.extend_from_slice(&c06_payload(&mut r, idx / 5, "quick")[..].iter().copied().take(6).collect::<Vec<u8>>());
                wf = Wf { bytes: Arc::new(bytes), head_len: hl, label: format!("case {idx} (short)") };
            }
            let replay = vec!["c06".to_string(), "--seed".into(), seed.to_string(), "--only".into(), idx.to_string()];
            // reference: unfragmented blocking parse
            let (o, _) = sync_parse(&wf.bytes, Plan::full());
            let reference = match o {
                Outcome::Ok(m) => *m,
                other => {
                    rep.eval();
                    rep.violation(format!("C06:reference-parse-{}", other.class()), format!("{}: unfragmented parse of a well-formed message failed: {}; head_hex={}", wf.label, other.short(), hex_short(&wf.bytes[..wf.head_len], 300)), replay.clone());
                    idx += nthreads as u64;
                    continue;
                }
            };
            let total = wf.bytes.len();
            if total > wf.head_len {
                rep.nontrivial(hash64(&wf.bytes[..wf.head_len.min(total)]) ^ (total as u64));
                rep.count("with_payload", 1);
            }
            rep.max("max_payload", (total - wf.head_len) as i64);
            if rep.samples.len() < 3 && idx % 501 == 3 {
                rep.sample(J::obj().with("case", idx).with("head_len", wf.head_len).with("payload_len", total - wf.head_len).with("head_hex", hex_short(&wf.bytes[..wf.head_len], 160)));
            }
            c06_run(&mut rep, &wf, &Plan::full(), "full", &reference, &replay);
            c06_run(&mut rep, &wf, &Plan::chunk(1), "uniform-1", &reference, &replay);
            rep.count("schedules", 2);
            let mut r = Rng::fork(seed ^ 0xC0602, idx);
            for t in 0..3u64 {
                let c = r.range(2, 70);
                c06_run(&mut rep, &wf, &Plan::chunk(c), &format!("uniform-{c}"), &reference, &replay);
                let comp = random_composition(&mut r, wf.head_len.min(4000));
                let pat = r.below(8) as usize;
                let mut plan = Plan::steps(decorate(&comp, pat, t));
                plan.fallback = if r.chance(1, 2) { Fallback::Full } else { Fallback::Chunk(r.range(1, 5000)) };
                c06_run(&mut rep, &wf, &plan, &format!("random/pat{pat}"), &reference, &replay);
                rep.count("schedules", 2);
            }
            c06_cross(&mut rep, &wf, &mut r, &replay);
            // interrupted before every read (blocking) / pending before every read (async)
            {
                let mut steps = vec![];
                for _ in 0..wf.head_len.min(3000) {
                    steps.push(Step::Interrupted);
                    steps.push(Step::Pending { deferred: steps.len() % 4 == 1 });
                    steps.push(Step::Chunk(3));
                }
                c06_run(&mut rep, &wf, &Plan::steps(steps), "interrupt/pending-before-every-read", &reference, &replay);
                rep.count("schedules", 1);
            }
            if wf.head_len <= max_all && wf.head_len >= 9 && exhaustive < tier_pick(tier, 10, 60) {
                exhaustive += 1;
                rep.count("messages_with_all_compositions", 1);
                let nn = wf.head_len;
                for mask in 0..(1u64 << (nn - 1)) {
                    let comp = composition(nn, mask);
                    let steps: Vec<Step> = comp.iter().map(|&c| Step::Chunk(c)).collect();
                    c06_run(&mut rep, &wf, &Plan::steps(steps), &format!("composition {mask:#x}"), &reference, &replay);
                    rep.count("schedules_compositions", 1);
                }
            }
            idx += nthreads as u64;
        }
        rep
    });
    let mut rep = merge_all("C06", tier, seed, parts);
    rep.rule = format!("Well-formed messages (G1/G2, short messages, and the hand-enumerated shapes with every boundary length) x payloads (empty, 1 byte, tag look-alikes, a second complete IPP message, random up to MiBs) x read schedules (whole: the source honours the full requested size so any read-ahead over-consumes; 1-byte; uniform; random compositions with Interrupted (blocking) / Pending immediate+deferred (async) steps; Interrupted/Pending before every read; ALL 2^(n-1) compositions of the header+attributes for messages of 9..{max_all} bytes). Monitors on the scripted source's log: bytes delivered at return of parse / parse_parts == offset just past the end-of-attributes tag (computed by the reference decoder); reader from parse_parts yields exactly the rest; payload byte-identical; result == the same parser's unfragmented result (agreement between the two parsers is C05's clause, not judged here). Four entry points per (message, schedule): blocking/async x parse/parse_parts; plus two cross reads per message: the payload of an async-parsed message through std::io::Read and of a blocking-parsed message through AsyncRead, with not-ready / interrupted results inside the payload region. evaluations = entry-point runs; distinct_nontrivial = distinct messages carrying a payload.");
    if only.is_none() {
        rep.require(rep.counters.get("schedules_compositions").copied().unwrap_or(0) > 50_000, "exhaustive compositions executed");
        rep.require(rep.counters.get("deferred_wakes").copied().unwrap_or(0) > 1000, "deferred wake-ups observed");
    }
    rep
}

impl Ctx {
    /// short well-formed message (9..=20 bytes of header+attributes)
    pub fn short_wellformed(seed: u64, idx: u64) -> (Vec<u8>, String) {
        let mut r = Rng::fork(seed ^ 0x5407, idx);
        let mut v = gen::HDR.to_vec();
        v[3] = r.u8();
        v[7] = r.u8();
        match r.below(6) {
            0 => v.push(0x01),
            1 => {
                v.push(0x01);
                gen::tnv(&mut v, 0x13, b"a", b"");
            }
            2 => {
                v.push(0x02);
                gen::tnv(&mut v, 0x22, b"b", &[1]);
            }
            3 => {
                v.push(0x04);
                gen::tnv(&mut v, 0x44, b"k", &r.bytes(2));
            }
            4 => {
                v.extend_from_slice(&[0x01, 0x02, 0x04]);
                gen::tnv(&mut v, 0x10, b"u", b"");
            }
            _ => {
                v.push(0x01);
                gen::tnv(&mut v, 0x21, b"i", &r.bytes(4));
            }
        }
        v.push(0x03);
        (v, format!("short {idx}"))
    }
}

// =================================================================== C07

const FAULT_KINDS: [ErrorKind; 8] = [
    ErrorKind::ConnectionReset,
    ErrorKind::ConnectionAborted,
    ErrorKind::TimedOut,
    ErrorKind::BrokenPipe,
    ErrorKind::UnexpectedEof,
    ErrorKind::PermissionDenied,
    ErrorKind::Other,
    ErrorKind::WouldBlock,
];

pub fn run_c07(args: &Args, tier: &str, seed: u64) -> Report {
    let n: u64 = args.u64("--cases", tier_pick(tier, 300, 20_000));
    let only = args.get("--only").and_then(|s| s.parse::<u64>().ok());
    let nthreads = if only.is_some() { 1 } else { threads() };
    let parts = par(nthreads, |shard| {
        let mut rep = Report::new("C07", tier, seed);
        let mut idx = shard as u64;
        while idx < n {
            if only.map(|o| o != idx).unwrap_or(false) {
                idx += nthreads as u64;
                continue;
            }
            // messages of 9 B .. ~2 KiB of header+attributes; every 10th a builder-style request
            let head: Vec<u8> = if idx % 10 == 9 {
                crate::builders::builder_request_bytes(seed, idx)
            } else if idx % 4 == 0 {
                let (b, _) = Ctx::short_wellformed(seed, idx);
                b
            } else {
                let mut k = idx;
                loop {
                    let w = corpus::wellformed_wire(seed ^ 0xC07, k, false);
                    let h = ippref::encode_head(&w);
                    if h.len() <= 2048 {
                        break h;
                    }
                    k += 1_000_003;
                }
            };
            let replay = vec!["c07".to_string(), "--seed".into(), seed.to_string(), "--only".into(), idx.to_string()];
            let hl = head.len();
            rep.count("messages", 1);
            rep.max("max_head_len", hl as i64);
            rep.nontrivial(hash64(&head));
            if rep.samples.len() < 3 && idx % 97 == 5 {
                rep.sample(J::obj().with("case", idx).with("head_len", hl).with("head_hex", hex_short(&head, 160)).with("cuts", hl).with("faults", hl * 8));
            }
            // sanity: the complete message parses
            let full = Arc::new(head.clone());
            let (o, _) = sync_parse(&full, Plan::full());
            if !matches!(o, Outcome::Ok(_)) {
                rep.eval();
                rep.violation(format!("C07:complete-message-{}", o.class()), format!("case {idx}: complete well-formed message not accepted: {}; head={}", o.short(), hex_short(&head, 300)), replay.clone());
                idx += nthreads as u64;
                continue;
            }
            // every cut point
            for k in 0..hl {
                let cut = Arc::new(head[..k].to_vec());
                for (which, plan) in [("blocking", Plan::full()), ("blocking-1", Plan::chunk(1))] {
                    if which == "blocking-1" && k % 3 != 0 {
                        continue;
                    }
                    rep.eval();
                    rep.count("cuts_blocking", 1);
                    let (o, _) = sync_parse(&cut, plan);
                    match o {
                        Outcome::Err(_) => {}
                        other => rep.violation(format!("C07:prefix-accepted:{which}:{}", other.class()), format!("case {idx}: prefix of {k}/{hl} bytes gave {} ({which}); head={}", other.short(), hex(&head[..hl.min(400)])), replay.clone()),
                    }
                }
                rep.eval();
                rep.count("cuts_async", 1);
                let plan = if k % 2 == 0 { Plan::full() } else { Plan::steps(decorate(&[1, 2, 3, 5, 8, 13, 21, 34, 55, 89, 144, 233, 377, 610, 987], 7, k as u64)) };
                let (o, _, _) = async_parse(&cut, plan);
                match o {
                    Outcome::Err(_) => {}
                    other => rep.violation(format!("C07:prefix-accepted:async:{}", other.class()), format!("case {idx}: prefix of {k}/{hl} bytes gave {} (async); head={}", other.short(), hex(&head[..hl.min(400)])), replay.clone()),
                }
            }
            // every (offset, kind) single fault
            for off in 0..hl {
                for (ki, &kind) in FAULT_KINDS.iter().enumerate() {
                    // persistent fault (the source keeps failing) and transient fault (fails once, then carries on): both are single faults
                    for once in [false, true] {
                        let mk = |fb: Fallback| Plan { steps: vec![], fallback: fb, fail_at: Some((off, kind)), steps_start: 0, fail_once: once, thread_wake: false };
                        let mode = if once { "transient" } else { "persistent" };
                        rep.eval();
                        rep.count("faults_blocking", 1);
                        rep.seen("fault_kinds", format!("{kind:?}"));
                        rep.seen("fault_modes", mode);
                        let fb = if (off + ki) % 3 == 0 { Fallback::Chunk(1 + off % 7) } else { Fallback::Full };
                        let (o, _) = sync_parse(&full, mk(fb.clone()));
                        if o != Outcome::Err(ErrK::Io(kind)) {
                            rep.violation(format!("C07:fault-lost:blocking:{}", o.class()), format!("case {idx}: {mode} {kind:?} injected at offset {off}/{hl} gave {} (blocking); head={}", o.short(), hex(&head[..hl.min(400)])), replay.clone());
                        }
                        // the same stream reaching the parser through an IppPayload (a message embedded in another one's document, or
                        // the payload taken from a reader): every 5th (offset, kind) pair, both parsers
                        if (off + ki) % 5 == 0 && !once {
                            rep.eval();
                            rep.count("faults_via_payload", 1);
                            let (src, _) = Scripted::new(full.clone(), mk(Fallback::Full));
                            let o = catch(move || match IppParser::new(IppReader::new(ipp::payload::IppPayload::new(src))).parse() {
                                Ok(_) => Outcome::Hang("accepted".into()),
                                Err(e) => Outcome::Err(errk(&e)),
                            })
                            .unwrap_or_else(Outcome::Panic);
                            if o != Outcome::Err(ErrK::Io(kind)) {
                                rep.violation(format!("C07:fault-lost:blocking-via-payload:{}", o.class()), format!("case {idx}: persistent {kind:?} injected at offset {off}/{hl} of a stream read through IppPayload gave {} (blocking); head={}", o.short(), hex(&head[..hl.min(400)])), replay.clone());
                            }
                            if kind != ErrorKind::WouldBlock {
                                let (src, sh) = Scripted::new(full.clone(), mk(Fallback::Full));
                                let r = catch(|| {
                                    src::run(
                                        async move {
                                            match AsyncIppParser::new(AsyncIppReader::new(ipp::payload::IppPayload::new(src))).parse().await {
                                                Ok(_) => Outcome::Hang("accepted".into()),
                                                Err(e) => Outcome::Err(errk(&e)),
                                            }
                                        },
                                        &[sh.clone()],
                                        MAX_IDLE_POLLS,
                                    )
                                });
                                let o = match r {
                                    Ok((Exec::Ready(o), _)) => o,
                                    Ok(_) => Outcome::Hang("no progress".into()),
                                    Err(p) => Outcome::Panic(p),
                                };
                                if o != Outcome::Err(ErrK::Io(kind)) {
                                    rep.violation(format!("C07:fault-lost:async-via-payload:{}", o.class()), format!("case {idx}: persistent {kind:?} injected at offset {off}/{hl} of a stream read through IppPayload gave {} (async); head={}", o.short(), hex(&head[..hl.min(400)])), replay.clone());
                                }
                            }
                        }
                        if kind == ErrorKind::WouldBlock {
                            continue;
                        }
                        rep.eval();
                        rep.count("faults_async", 1);
                        let (o, _, _) = async_parse(&full, mk(fb));
                        if o != Outcome::Err(ErrK::Io(kind)) {
                            rep.violation(format!("C07:fault-lost:async:{}", o.class()), format!("case {idx}: {mode} {kind:?} injected at offset {off}/{hl} gave {} (async); head={}", o.short(), hex(&head[..hl.min(400)])), replay.clone());
                        }
                    }
                }
            }
            idx += nthreads as u64;
        }
        rep
    });
    let mut rep = merge_all("C07", tier, seed, parts);
    // messages with a name / value at the top of the 16-bit length range: cuts and faults at the positions around that element
    // (sampled, not exhaustive: these messages are 64 KiB long)
    if only.is_none() {
        for (nlen, vlen) in [(65533usize, 4usize), (65534, 4), (65535, 4), (1, 65534), (1, 65535), (32767, 32767), (32768, 32768)] {
            let mut msg = gen::HDR.to_vec();
            msg.push(0x01);
            msg.push(0x30);
            msg.extend_from_slice(&(nlen as u16).to_be_bytes());
            msg.extend(std::iter::repeat(b'n').take(nlen));
            msg.extend_from_slice(&(vlen as u16).to_be_bytes());
            msg.extend(std::iter::repeat(b'v').take(vlen));
            msg.extend_from_slice(&[0x21, 0x00, 0x01, b'z', 0x00, 0x04, 0, 0, 0, 1, 0x03]);
            let hl = msg.len();
            let full = Arc::new(msg);
            let name_end = 8 + 1 + 1 + 2 + nlen;
            let mut offs = vec![9, 10, 11, 12, 13, name_end - 1, name_end, name_end + 1, name_end + 2, name_end + 2 + vlen / 2, name_end + 2 + vlen, hl - 12, hl - 2, hl - 1];
            offs.retain(|o| *o < hl);
            offs.dedup();
            for off in offs {
                for use_async in [false, true] {
                    rep.eval();
                    rep.count("long_element_cuts_and_faults", 2);
                    let cut = Arc::new(full[..off].to_vec());
                    let o = if use_async { async_parse(&cut, Plan::chunk(4096)).0 } else { sync_parse(&cut, Plan::full()).0 };
                    if !matches!(o, Outcome::Err(_)) {
                        rep.violation(format!("C07:cut-accepted:long-element:{}", o.class()), format!("message with a {nlen}-octet name and a {vlen}-octet value cut at {off}/{hl} gave {} ({})", o.short(), if use_async { "async" } else { "blocking" }), vec!["c07".into()]);
                    }
                    let plan = Plan { steps: vec![], fallback: Fallback::Full, fail_at: Some((off, ErrorKind::ConnectionReset)), steps_start: 0, fail_once: false, thread_wake: false };
                    let o = if use_async { async_parse(&full, plan).0 } else { sync_parse(&full, plan).0 };
                    if o != Outcome::Err(ErrK::Io(ErrorKind::ConnectionReset)) {
                        rep.violation(format!("C07:fault-lost:long-element:{}", o.class()), format!("message with a {nlen}-octet name and a {vlen}-octet value, ConnectionReset at {off}/{hl} gave {} ({})", o.short(), if use_async { "async" } else { "blocking" }), vec!["c07".into()]);
                    }
                }
            }
        }
    }
    rep.rule = "Per well-formed message (G1/G2 trees, short messages, builder requests; header+attributes 9 B..2 KiB): EVERY cut point 0 <= k < |header+attributes| through the blocking parser (whole and, every 3rd, 1-byte reads) and the async parser (whole / fragmented with not-ready steps) must give Err; EVERY (offset, kind) single fault with kinds ConnectionReset, ConnectionAborted, TimedOut, BrokenPipe, UnexpectedEof, PermissionDenied, Other (+ WouldBlock for the blocking reader), delivered under full or small-chunk reads, must give Err(IoError) of exactly that kind; Ok or a panic is a violation; every 5th (offset, kind) pair additionally with the stream reaching the parsers through an IppPayload; plus sampled cuts and faults around names / values of 32767..65535 octets. evaluations = parser runs; distinct_nontrivial = distinct messages enumerated exhaustively.".into();
    rep.exhaustive = Some(false);
    rep.extra.insert("per_message_enumeration".into(), J::Str("exhaustive over cut points and (offset, kind) faults for every message listed in counters.messages".into()));
    if only.is_none() {
        rep.require(rep.sets.get("fault_kinds").map(|s| s.len()).unwrap_or(0) == 8, "all 8 fault kinds injected");
    }
    rep
}
