//! C02: parsers (and everything done to their results) are total on arbitrary bytes.
//!
//! `c02w`    worker over one shard of one hostile family, all phases in-process under
//!           catch_unwind; an abort (stack overflow ...) is attributed to the current
//!           case + phase by a signal handler and reported by the parent driver.
//! `c02bomb` one structural bomb, one phase, one process.

use crate::common::*;
use crate::corpus::{self, Ctx};
use bytes::Bytes;
use ipp::parser::IppParser;
use ipp::prelude::*;
use ipp::reader::IppReader;
use std::sync::atomic::{AtomicU64, AtomicUsize, Ordering::SeqCst};
use std::sync::Arc;
use vkit::json::{hex, hex_short, unhex, J};
use vkit::out::Report;
use vkit::rng::hash64;
use vkit::src::{Plan, Scripted};
use vkit::util::{catch, panic_site, Args};

pub static CUR_CASE: AtomicU64 = AtomicU64::new(u64::MAX);
pub static CUR_PHASE: AtomicUsize = AtomicUsize::new(0);
pub const PHASES: [&str; 10] = ["setup", "parse", "async-parse", "value-parse", "display", "debug", "encode", "traverse", "clone-eq", "drop"];

fn phase(i: usize) {
    CUR_PHASE.store(i, SeqCst);
}

extern "C" fn on_abort(sig: i32) {
    // async-signal-safe: format into a stack buffer, write(2), _exit
    let mut buf = [0u8; 96];
    let mut n = 0;
    let mut put = |s: &[u8], n: &mut usize| {
        for &b in s {
            if *n < buf.len() {
                buf[*n] = b;
                *n += 1;
            }
        }
    };
    put(b"\nVERIF-ABORT sig=", &mut n);
    put_num(sig as u64, &mut put, &mut n);
    put(b" case=", &mut n);
    put_num(CUR_CASE.load(SeqCst), &mut put, &mut n);
    put(b" phase=", &mut n);
    put_num(CUR_PHASE.load(SeqCst) as u64, &mut put, &mut n);
    put(b"\n", &mut n);
    unsafe {
        libc::write(2, buf.as_ptr() as *const libc::c_void, n);
        libc::_exit(99);
    }
}

fn put_num(mut v: u64, put: &mut dyn FnMut(&[u8], &mut usize), n: &mut usize) {
    let mut d = [0u8; 20];
    let mut i = 20;
    if v == 0 {
        put(b"0", n);
        return;
    }
    while v > 0 {
        i -= 1;
        d[i] = b'0' + (v % 10) as u8;
        v /= 10;
    }
    put(&d[i..], n);
}

pub fn install_abort_handler() {
    // Miri does not model signal handlers; under Miri an abort is reported by Miri itself
    #[cfg(not(miri))]
    unsafe {
        libc::signal(libc::SIGABRT, on_abort as *const () as libc::sighandler_t);
    }
}

/// everything the property lists: display, re-encode, traverse, clone (+eq), drop
pub fn inspect(resp: IppRequestResponse) -> Result<(), (usize, String)> {
    let step = |p: usize, f: &mut dyn FnMut()| -> Result<(), (usize, String)> {
        phase(p);
        catch(|| f()).map_err(|m| (p, m))
    };
    let mut sink = 0usize;
    step(4, &mut || {
        for g in resp.attributes().groups() {
            for a in g.attributes().values() {
                sink += format!("{}", a.value()).len();
            }
        }
    })?;
    step(5, &mut || {
        sink += format!("{:?} {:?}", resp.header(), resp.attributes()).len();
    })?;
    step(6, &mut || {
        sink += resp.to_bytes().len();
        for g in resp.attributes().groups() {
            for a in g.attributes().values() {
                sink += a.to_bytes().len();
            }
        }
    })?;
    step(7, &mut || {
        // library iterator, nested levels walked with an explicit stack (the harness itself must not recurse)
        for g in resp.attributes().groups() {
            for a in g.attributes().values() {
                let mut stack: Vec<&IppValue> = vec![a.value()];
                while let Some(v) = stack.pop() {
                    let mut it = v.into_iter();
                    let mut n = 0usize;
                    while let Some(e) = it.next() {
                        n += 1;
                        if !std::ptr::eq(e, v) {
                            stack.push(e);
                        }
                        if n > 10_000_000 {
                            panic!("value iterator did not end after 10M items");
                        }
                    }
                    // exhausted iterators stay exhausted
                    assert!(it.next().is_none() && it.next().is_none(), "iterator resumed after None");
                    sink += n;
                }
            }
        }
    })?;
    let mut cloned = None;
    step(8, &mut || {
        let c = resp.attributes().clone();
        for (g, h) in resp.attributes().groups().iter().zip(c.groups()) {
            for (k, a) in g.attributes() {
                let b = h.attributes().get(k).expect("clone lost an attribute");
                assert!(a.value() == b.value(), "clone differs from original");
            }
        }
        cloned = Some(c);
    })?;
    step(9, &mut || {
        drop(cloned.take());
    })?;
    phase(9);
    catch(move || drop(resp)).map_err(|m| (9, m))?;
    std::hint::black_box(sink);
    Ok(())
}

fn sig(fam: &str, kind: &str, ph: usize, site: &str) -> String {
    format!("C02:{kind}:{fam}:{}:{site}", PHASES[ph])
}

/// run one input through both parsers + inspection; record violations
pub fn one_input(rep: &mut Report, fam: &str, idx: u64, label: &str, bytes: Vec<u8>, replay: &[String]) {
    CUR_CASE.store(idx, SeqCst);
    let data = Arc::new(bytes);
    rep.eval();
    // blocking
    phase(1);
    let (src, shared) = Scripted::new(data.clone(), Plan::full());
    let parsed = catch(move || IppParser::new(IppReader::new(src)).parse());
    let after_eof = shared.snapshot().5;
    let mut class = "panic";
    match parsed {
        Err(p) => rep.violation(sig(fam, "panic", 1, &panic_site(&p)), format!("{label}: blocking parser panicked: {p}; input={}", hex_short(&data, 600)), replay.to_vec()),
        Ok(r) => {
            if after_eof > EOF_READ_LIMIT {
                rep.violation(sig(fam, "reads-past-eof", 1, ""), format!("{label}: blocking parser issued {after_eof} reads after EOF; input={}", hex_short(&data, 600)), replay.to_vec());
            }
            match r {
                Ok(resp) => {
                    class = "ok";
                    rep.nontrivial(hash64(&data));
                    // re-encoding must also work after the returned message was edited through the public accessors (an attribute
                    // removed, one replaced, one inserted through attributes_mut(); a whole group dropped through groups_mut())
                    phase(6);
                    if data.len() <= 65_536 {
                        let edited = catch(|| {
                            let mut a = resp.attributes().clone();
                            let mut n = 0usize;
                            for g in a.groups_mut().iter_mut() {
                                let names: Vec<String> = g.attributes().keys().cloned().collect();
                                if let Some(first) = names.first() {
                                    g.attributes_mut().remove(first);
                                }
                                if let Some(second) = names.get(1) {
                                    g.attributes_mut().insert(second.clone(), ipp::attribute::IppAttribute::new(second, IppValue::Integer(1)));
                                }
                                g.attributes_mut().insert("verif-inserted".into(), ipp::attribute::IppAttribute::new("verif-inserted", IppValue::Boolean(true)));
                                n += 1;
                            }
                            let mut len = a.to_bytes().len();
                            if n > 1 {
                                a.groups_mut().pop();
                                len += a.to_bytes().len();
                            }
                            a.add(ipp::model::DelimiterTag::JobAttributes, ipp::attribute::IppAttribute::new("verif-added", IppValue::NoValue));
                            len + a.to_bytes().len()
                        });
                        if let Err(msg) = edited {
                            rep.violation(sig(fam, "panic", 6, &panic_site(&msg)), format!("{label}: re-encoding the parsed result after editing it through attributes_mut()/groups_mut()/add() panicked: {msg}; input={}", hex_short(&data, 600)), replay.to_vec());
                        }
                    }
                    if let Err((ph, msg)) = inspect(resp) {
                        rep.violation(sig(fam, "panic", ph, &panic_site(&msg)), format!("{label}: {} of the parsed result panicked: {msg}; input={}", PHASES[ph], hex_short(&data, 600)), replay.to_vec());
                    }
                }
                Err(e) => {
                    class = match errk(&e) {
                        ErrK::InvalidTag(_) => "err-invalid-tag",
                        ErrK::InvalidCollection => "err-invalid-collection",
                        ErrK::Io(_) => "err-io",
                        ErrK::Other(_) => "err-other",
                    };
                    phase(9);
                    let _ = catch(move || format!("{e} {e:?}"));
                }
            }
        }
    }
    rep.count(&format!("sync_{class}"), 1);
    // async
    phase(2);
    let (o, _, st) = async_parse(&data, Plan::full());
    rep.count("async_polls", st.polls as i64);
    match o {
        Outcome::Panic(p) => rep.violation(sig(fam, "panic", 2, &panic_site(&p)), format!("{label}: async parser panicked: {p}; input={}", hex_short(&data, 600)), replay.to_vec()),
        Outcome::Hang(h) => rep.violation(sig(fam, "hang", 2, ""), format!("{label}: {h}; input={}", hex_short(&data, 600)), replay.to_vec()),
        _ => {}
    }
    phase(0);
}

/// stand-alone value decoder on (tag, body)
pub fn one_value(rep: &mut Report, fam: &str, idx: u64, label: &str, tag: u8, body: Vec<u8>, replay: &[String]) {
    CUR_CASE.store(idx, SeqCst);
    phase(3);
    rep.eval();
    rep.count("value_decoder_calls", 1);
    let b = Bytes::from(body.clone());
    match catch(move || IppValue::parse(tag, b)) {
        Err(p) => rep.violation(sig(fam, "panic", 3, &panic_site(&p)), format!("{label}: IppValue::parse({tag:#04x}, {} bytes) panicked: {p}; body={}", body.len(), hex_short(&body, 200)), replay.to_vec()),
        Ok(Ok(v)) => {
            rep.count("value_decoder_ok", 1);
            let r = catch(move || {
                let s = format!("{v} {v:?}").len();
                let e = v.to_bytes().len();
                let c = v.clone();
                assert!(c == v);
                let n = (&v).into_iter().count();
                s + e + n
            });
            if let Err(p) = r {
                rep.violation(sig(fam, "panic", 4, &panic_site(&p)), format!("{label}: using the decoded value panicked: {p}; tag={tag:#04x} body={}", hex_short(&body, 200)), replay.to_vec());
            }
        }
        Ok(Err(_)) => rep.count("value_decoder_err", 1),
    }
    phase(0);
}

pub fn run_worker(args: &Args, tier: &str, seed: u64) -> Report {
    install_abort_handler();
    let fam = args.str("--family", "tails");
    let shard = args.u64("--shard", 0);
    let nshards = args.u64("--nshards", 1).max(1);
    let skip: Vec<u64> = args.get("--skip").map(|s| s.split(',').filter_map(|x| x.parse().ok()).collect()).unwrap_or_default();
    let only = args.get("--only").and_then(|s| s.parse::<u64>().ok());
    let mut rep = Report::new("C02", tier, seed);
    rep.max_samples = 2;
    if let Some(h) = args.get("--hex") {
        // literal replay
        let bytes = unhex(h).expect("hex");
        one_input(&mut rep, "literal", 0, "literal", bytes, &["c02w".into(), "--hex".into(), h.to_string()]);
        return rep;
    }
    let lean = cfg!(miri) || args.has("--lean");
    let ctx = if fam == "mutations" { Ctx::with_pool(tier, seed, !lean) } else { Ctx { tier: tier.to_string(), seed, pool: vec![] } };
    let total = ctx.count(&fam);
    // the case loop runs on a thread with the default main-thread stack size (8 MiB); the chains family on the
    // default size of spawned threads and async worker threads (2 MiB): nothing in it is nested, so a correct
    // iterative parser needs no stack proportional to the input
    let stack = if fam == "chains" { 2 << 20 } else { 8 << 20 };
    let rep = std::thread::scope(|s| {
        std::thread::Builder::new()
            .stack_size(stack)
            .spawn_scoped(s, || {
                let mut rep = rep;
                let mut idx = shard;
                while idx < total {
                    if skip.contains(&idx) || only.map(|o| o != idx).unwrap_or(false) {
                        idx += nshards;
                        continue;
                    }
                    let (bytes, label) = ctx.case(&fam, idx);
                    if lean && bytes.len() > 2048 {
                        // interpreters: the 64 KiB bodies of the grid cost minutes each and add nothing the native run does not cover
                        rep.count("skipped_large_in_lean_mode", 1);
                        idx += nshards;
                        continue;
                    }
                    let replay = vec!["c02w".to_string(), "--family".into(), fam.clone(), "--seed".into(), seed.to_string(), "--only".into(), idx.to_string()];
                    if rep.samples.len() < 2 && idx % 1009 == shard % 1009 {
                        rep.sample(J::obj().with("family", fam.as_str()).with("case", idx).with("label", label.as_str()).with("input_hex", hex_short(&bytes, 120)));
                    }
                    // stand-alone value decoder for the grid / with-language families
                    if fam == "grid" && idx % 2 == 0 {
                        let f = ((idx / 2) % corpus::FILLS as u64) as usize;
                        let l = ((idx / 2 / corpus::FILLS as u64) % corpus::GRID_LENS.len() as u64) as usize;
                        let tag = (idx / 2 / corpus::FILLS as u64 / corpus::GRID_LENS.len() as u64) as u8;
                        one_value(&mut rep, &fam, idx, &label, tag, corpus::fill(f, corpus::GRID_LENS[l] as usize), &replay);
                    }
                    if fam == "bytes12" {
                        let (tag, body) = corpus::bytes12_params(idx);
                        one_value(&mut rep, &fam, idx, &label, tag, body, &replay);
                    }
                    if fam == "strings" {
                        let (tag, body) = corpus::strings_params(idx);
                        one_value(&mut rep, &fam, idx, &label, tag, body, &replay);
                    }
                    if fam == "chains" {
                        let (tag, body, _) = corpus::chains_params(idx);
                        one_value(&mut rep, &fam, idx, &label, tag, body, &replay);
                    }
                    if fam == "withlang" {
                        let (tag, l, l1, l2) = corpus::withlang_params(idx);
                        one_value(&mut rep, &fam, idx, &label, tag, corpus::withlang_body(l, l1, l2), &replay);
                    }
                    one_input(&mut rep, &fam, idx, &label, bytes, &replay);
                    idx += nshards;
                }
                rep.count(&format!("cases_{fam}"), ((total.saturating_sub(shard) + nshards - 1) / nshards) as i64);
                rep
            })
            .unwrap()
            .join()
            .unwrap()
    });
    rep
}

/// one bomb, one phase, one process: exit status / VERIF-ABORT line is the verdict
pub fn run_bomb(args: &Args, tier: &str, seed: u64) -> Report {
    install_abort_handler();
    let fam = args.str("--family", "nest");
    let size = args.u64("--size", 4096) as usize;
    let ph = args.str("--phase", "parse");
    let stack = args.u64("--stack", 8 << 20) as usize;
    let use_async = args.has("--async");
    let mut rep = Report::new("C02", tier, seed);
    let data = Arc::new(vkit::gen::family(&fam, size));
    CUR_CASE.store(size as u64, SeqCst);
    rep.eval();
    rep.nontrivial(hash64(&data));
    let fam2 = fam.clone();
    let ph2 = ph.clone();
    let d2 = data.clone();
    let res: Result<String, String> = std::thread::scope(|s| {
        std::thread::Builder::new()
            .stack_size(stack)
            .spawn_scoped(s, move || {
                phase(1);
                let parsed: Result<IppRequestResponse, String> = if use_async {
                    phase(2);
                    let (src, shared) = Scripted::new(d2.clone(), Plan::chunk(4096));
                    let sh = [shared];
                    match catch(|| vkit::src::run(ipp::parser::AsyncIppParser::new(ipp::reader::AsyncIppReader::new(src)).parse(), &sh, MAX_IDLE_POLLS)) {
                        Ok((vkit::src::Exec::Ready(r), _)) => r.map_err(|e| format!("err:{:?}", errk(&e))),
                        Ok((_, _)) => return Err("hang".to_string()),
                        Err(p) => return Err(format!("panic:{p}")),
                    }
                } else {
                    let (src, _) = Scripted::new(d2.clone(), Plan::full());
                    match catch(move || IppParser::new(IppReader::new(src)).parse()) {
                        Ok(r) => r.map_err(|e| format!("err:{:?}", errk(&e))),
                        Err(p) => return Err(format!("panic:{p}")),
                    }
                };
                let resp = match parsed {
                    Ok(r) => r,
                    Err(e) => return Ok(e),
                };
                let depth = |r: &IppRequestResponse| -> usize {
                    // iterative depth probe of the first attribute
                    let mut d = 0;
                    let mut cur: Option<&IppValue> = r.attributes().groups().first().and_then(|g| g.attributes().values().next()).map(|a| a.value());
                    while let Some(v) = cur {
                        cur = match v {
                            IppValue::Collection(m) => {
                                d += 1;
                                m.values().find(|x| matches!(x, IppValue::Collection(_) | IppValue::Array(_))).or(m.values().next())
                            }
                            IppValue::Array(a) => a.iter().find(|x| matches!(x, IppValue::Collection(_))),
                            _ => None,
                        };
                        if d > 10_000_000 {
                            break;
                        }
                    }
                    d
                };
                let d = depth(&resp);
                let r: Result<(), String> = match ph2.as_str() {
                    "parse" => {
                        std::mem::forget(resp);
                        Ok(())
                    }
                    "display" => {
                        phase(4);
                        let r = catch(|| {
                            for g in resp.attributes().groups() {
                                for a in g.attributes().values() {
                                    std::hint::black_box(format!("{}", a.value()).len());
                                }
                            }
                        });
                        std::mem::forget(resp);
                        r
                    }
                    "debug" => {
                        phase(5);
                        let r = catch(|| {
                            std::hint::black_box(format!("{:?}", resp.attributes()).len());
                        });
                        std::mem::forget(resp);
                        r
                    }
                    "encode" => {
                        phase(6);
                        let r = catch(|| {
                            std::hint::black_box(resp.to_bytes().len());
                        });
                        std::mem::forget(resp);
                        r
                    }
                    "traverse" => {
                        phase(7);
                        let r = catch(|| {
                            let mut n = 0usize;
                            for g in resp.attributes().groups() {
                                for a in g.attributes().values() {
                                    let mut stack: Vec<&IppValue> = vec![a.value()];
                                    while let Some(v) = stack.pop() {
                                        for e in v {
                                            n += 1;
                                            if !std::ptr::eq(e, v) {
                                                stack.push(e);
                                            }
                                        }
                                    }
                                }
                            }
                            std::hint::black_box(n);
                        });
                        std::mem::forget(resp);
                        r
                    }
                    "clone-eq" => {
                        phase(8);
                        let r = catch(|| {
                            let c = resp.attributes().clone();
                            for (g, h) in resp.attributes().groups().iter().zip(c.groups()) {
                                for (k, a) in g.attributes() {
                                    assert!(h.attributes().get(k).map(|b| b.value() == a.value()).unwrap_or(false));
                                }
                            }
                            std::mem::forget(c);
                        });
                        std::mem::forget(resp);
                        r
                    }
                    "drop" => {
                        phase(9);
                        catch(move || drop(resp))
                    }
                    other => Err(format!("unknown phase {other}")),
                };
                r.map(|_| format!("ok depth={d}")).map_err(|p| format!("panic:{p}"))
            })
            .unwrap()
            .join()
            .unwrap_or_else(|_| Err("thread-died".into()))
    });
    let replay = vec!["c02bomb".to_string(), "--family".into(), fam2.clone(), "--size".into(), size.to_string(), "--phase".into(), ph.clone(), "--stack".into(), stack.to_string()];
    match res {
        Ok(s) => {
            rep.seen("bomb_outcomes", format!("{fam2}/{ph}/{size}: {s}"));
            if let Some(d) = s.strip_prefix("ok depth=").and_then(|x| x.parse::<i64>().ok()) {
                rep.max("max_bomb_depth_parsed", d);
            }
        }
        Err(e) => {
            let kind = if e.starts_with("hang") { "hang" } else { "panic" };
            rep.violation(format!("C02:{kind}:bomb-{fam2}:{ph}:{}", panic_site(&e)), format!("bomb {fam2} size {size} phase {ph}: {e}; input_head={}", hex(&data[..data.len().min(64)])), replay);
        }
    }
    rep
}
