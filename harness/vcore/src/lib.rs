//! Runtime monitors for the core (no-network) properties, as a library so that the
//! sanitizer / fuzzing layers can call the same per-case monitors as the `vcore` binary.

pub mod builders;
pub mod c01;
pub mod c02;
pub mod common;
pub mod corpus;
pub mod fuzz;
pub mod misc;
pub mod parsers;
pub mod san;
pub mod uris;
