//! Runtime monitors for the core (no-network) properties.
//! usage: vcore <check> --tier quick|thorough --seed N --out result.json [--only I] ...


use vcore::{builders, c01, c02, misc, parsers, san};
use vkit::alloc::Counting;
use vkit::out::Report;
use vkit::util::Args;

#[global_allocator]
static GLOBAL: Counting = Counting;

fn main() {
    let args = Args::from_env();
    let cmd = args.v.first().cloned().unwrap_or_default();
    let tier = args.str("--tier", "quick");
    let seed = args.u64("--seed", 1);
    let out = args.str("--out", "");
    vkit::util::install_panic_hook();
    // every log level is taken (and discarded), so that the arguments of the library's log macros are evaluated
    // (not for the cost measurements of C15: they measure parsing, not the formatting of log records)
    if !matches!(cmd.as_str(), "c15" | "cost" | "floodgen") {
        vkit::util::install_logger();
    }
    if cfg!(miri) {
        // the interpreter is ~4 orders of magnitude slower; the reference codec is anchored by the native runs
    } else if let Err(e) = ippref::self_check() {
        eprintln!("reference codec self-check failed: {e}");
        std::process::exit(3);
    }
    let t0 = std::time::Instant::now();
    let report: Report = match cmd.as_str() {
        "c01" => c01::run_c01(&args, &tier, seed),
        "c03" => c01::run_c03(&args, &tier, seed),
        "c04" => parsers::run_c04(&args, &tier, seed),
        "c05" => parsers::run_c05(&args, &tier, seed),
        "c06" => parsers::run_c06(&args, &tier, seed),
        "c07" => parsers::run_c07(&args, &tier, seed),
        "c09" => builders::run_c09(&args, &tier, seed),
        "c10" => builders::run_c10(&args, &tier, seed),
        "c13" => builders::run_c13(&args, &tier, seed),
        "c14" => builders::run_c14(&args, &tier, seed),
        "c08" => misc::run_c08(&args, &tier, seed),
        "c15" => misc::run_c15(&args, &tier, seed),
        "c16" => misc::run_c16(&args, &tier, seed),
        "c17" => misc::run_c17(&args, &tier, seed),
        "c19" => misc::run_c19(&args, &tier, seed),
        "floodgen" => {
            misc::run_floodgen(&args);
            return;
        }
        "cost" => {
            misc::run_cost(&args);
            return;
        }
        "san" => san::run(&args, &tier, seed),
        "c02w" => c02::run_worker(&args, &tier, seed),
        "c02bomb" => c02::run_bomb(&args, &tier, seed),
        _ => {
            eprintln!("unknown check {cmd}");
            std::process::exit(3);
        }
    };
    let wall = t0.elapsed().as_secs_f64();
    if out.is_empty() {
        println!("{}", report.to_json(wall).to_string());
    } else {
        report.write(&out, wall);
    }
    eprintln!(
        "{}: evaluations={} distinct_nontrivial={} violations={} inconclusive={} wall={:.1}s",
        report.property,
        report.evaluations,
        report.distinct_nontrivial(),
        report.violations_total,
        report.inconclusive.len(),
        wall
    );
}
