//! C08 (message as a stream), C15 (linear cost), C16 (code tables),
//! C17 (printer readiness), C19 (attribute container + value traversal).

use crate::common::*;
use futures_util::io::{AsyncRead, AsyncReadExt};
use ipp::prelude::*;
use ippref::registry as reg;
use ippref::{MVal, Model};
use std::collections::{BTreeMap, BTreeSet};
use std::io::{ErrorKind, Read};
use std::sync::Arc;
use vkit::gen::{self, G1Cfg};
use vkit::json::{hex_short, J};
use vkit::mirror;
use vkit::out::Report;
use vkit::rng::{hash64, Rng};
use vkit::src::{self, Exec, Fallback, Plan, Scripted, Step};
use vkit::util::{catch, panic_site, par, threads, Args};

fn merged(pid: &str, tier: &str, seed: u64, parts: Vec<Report>) -> Report {
    let mut rep = Report::new(pid, tier, seed);
    for r in parts {
        rep.merge(r);
    }
    rep
}

// =================================================================== C08

/// after a lost wake-up was reported, further thread-hop cases are skipped (each would cost the detection delay again)
static HOP_DISABLED: std::sync::atomic::AtomicBool = std::sync::atomic::AtomicBool::new(false);

const BUF_SIZES: [usize; 10] = [1, 2, 3, 7, 64, 1000, 4096, 8192, 65536, 0];

fn payload_plan(rng: &mut Rng, n: usize, for_blocking_bridge: bool) -> Plan {
    let mut steps = vec![];
    let k = rng.range(0, 40);
    for _ in 0..k {
        match rng.below(5) {
            0 => steps.push(Step::Interrupted),
            1 => steps.push(Step::Pending { deferred: false }),
            2 => steps.push(Step::Pending { deferred: true }),
            _ => steps.push(Step::Chunk(rng.range(1, n.max(1).min(10_000)))),
        }
    }
    let fallback = match rng.below(3) {
        0 => Fallback::Full,
        1 => Fallback::Chunk(1),
        _ => Fallback::Chunk(rng.range(1, 70_000)),
    };
    Plan { steps, fallback, fail_at: None, steps_start: 0, fail_once: false, thread_wake: for_blocking_bridge }
}

pub(crate) fn c08_case(rep: &mut Report, seed: u64, idx: u64, tier: &str) {
    let mut rng = Rng::fork(seed ^ 0xC08, idx);
    let cfg = if tier == "lean" { G1Cfg { big: false, max_depth: 2, oob_nonempty: true, max_groups: 2, max_attrs: 3 } } else { G1Cfg { big: idx % 101 == 0, ..G1Cfg::default() } };
    let mut m = gen::gen_model(&mut rng, &cfg);
    // every 7th message has no operation-attributes group at all (a parsed response of that kind streamed again, or a message
    // edited through groups_mut()), as long as another group remains
    if idx % 7 == 3 && m.groups.iter().any(|g| g.tag != 1) {
        m.groups.retain(|g| g.tag != 1);
        rep.count("messages_without_an_operation_group", 1);
    }
    // payload content and source kind
    let kind = idx % 3; // 0 none, 1 blocking source, 2 async source
    let plen = if tier == "lean" {
        rng.range(0, 600)
    } else { match rng.below(12) {
        0 => 0,
        1 => *rng.pick(&[1usize, 1, 4095, 4096, 4097, 8191, 8192, 8193, 65535, 65536, 65537]),
        2..=6 => rng.range(2, 5000),
        7..=9 => rng.range(5000, 200_000),
        _ => {
            if idx % 16 == 5 {
                if tier == "thorough" && idx % 512 == 5 { 17_000_000 } else { tier_pick(tier, 1_200_000, 8_400_000) }
            } else {
                rng.range(60_000, 300_000)
            }
        }
    } };
    m.data = if kind == 0 { vec![] } else { rng.bytes(plen) };
    let payload = Arc::new(m.data.clone());
    let replay = vec!["c08".to_string(), "--seed".into(), seed.to_string(), "--only".into(), idx.to_string()];
    rep.seen("payload_sources", ["none", "blocking-reader", "async-reader"][kind as usize]);
    rep.max("max_payload", payload.len() as i64);
    for consume_async in [false, true] {
        rep.eval();
        let bridged = (kind == 2 && !consume_async) || (kind == 1 && consume_async);
        if bridged {
            rep.count("bridged_runs", 1);
        }
        let plan = payload_plan(&mut rng, payload.len(), kind == 2 && !consume_async);
        let mut sizes: Vec<usize> = (0..rng.range(1, 6)).map(|_| *rng.pick(&BUF_SIZES)).collect();
        if sizes.iter().all(|&k| k == 0) {
            sizes.push(512);
        }
        let label = format!("case {idx}: {} ; payload {}B via {} ; consumed {} with buffer sizes {sizes:?} ; plan steps={} fallback={:?}", model_summary(&m), payload.len(), ["none", "IppPayload::new(Read)", "IppPayload::new_async(AsyncRead)"][kind as usize], if consume_async { "into_async_read" } else { "into_read" }, plan.steps.len(), plan.fallback);
        let mut r = mirror::to_ipp(&m);
        let (src, shared) = Scripted::new(payload.clone(), plan);
        match kind {
            1 => *r.payload_mut() = IppPayload::new(src),
            2 => *r.payload_mut() = IppPayload::new_async(src),
            _ => {}
        }
        let head = match catch(|| r.to_bytes().to_vec()) {
            Ok(h) => h,
            Err(p) => {
                rep.violation(format!("C08:panic:{}", panic_site(&p)), format!("{label}: to_bytes: {p}"), replay.clone());
                return;
            }
        };
        if !consume_async && idx % 499 == 3 && rep.samples.len() < 4 {
            rep.sample(J::obj().with("case", idx).with("what", label.as_str()).with("head_hex", hex_short(&head, 120)));
        }
        // the 8 header octets are fixed by RFC 8010 3.1.1: judged against the message's own header values, not against to_bytes()
        let hdr_of = |version: u16, code: u16, id: u32| -> Vec<u8> {
            let mut h = version.to_be_bytes().to_vec();
            h.extend_from_slice(&code.to_be_bytes());
            h.extend_from_slice(&id.to_be_bytes());
            h
        };
        if head.len() < 8 || head[..8] != hdr_of(m.version, m.code, m.id)[..] {
            rep.violation("C08:encoded-header", format!("{label}: to_bytes() starts with {} but the header is version {:#06x} code {:#06x} request-id {}", hex_short(&head[..head.len().min(8)], 16), m.version, m.code, m.id), replay.clone());
            return;
        }
        // ... and the attribute section must MEAN the message (independent reading of the octets; an operation group the encoder
        // puts in front of a message that has none is empty and not counted)
        if !consume_async && head.len() <= 1 << 16 {
            // (body widths are not judged here: this generator also makes out-of-band values that carry octets)
            match ippref::decode_strict(&head, &ippref::Strictness { bodies: false, unique_names: true }) {
                Ok(w) => {
                    let mut got = ippref::interp(&w).normalize();
                    if m.groups.iter().all(|g| g.tag != 1) && got.groups.first().map(|g| g.tag == 1 && g.attrs.is_empty()).unwrap_or(false) {
                        got.groups.remove(0);
                    }
                    let mut exp = m.clone().normalize();
                    exp.data.clear();
                    rep.count("encoded_heads_read_independently", 1);
                    if let Some(d) = mirror::diff(&exp, &got) {
                        rep.violation("C08:encoded-attributes", format!("{label}: the encoded header and attributes do not mean the message: {d}; head={}", hex_short(&head, 300)), replay.clone());
                        return;
                    }
                }
                Err(e) => {
                    rep.violation("C08:encoded-attributes", format!("{label}: the reference decoder rejects the encoded header and attributes: {e:?}; head={}", hex_short(&head, 300)), replay.clone());
                    return;
                }
            }
        }
        let mut expected = head.clone();
        // every 4th case: the header is changed through header_mut() AFTER the message has been encoded once; the stream
        // must carry the header as it is now (attribute section unchanged: same instance, same maps)
        if idx % 4 == 1 {
            let (nv, nc, ni) = (if m.version == 0x0200 { 0x0101 } else { 0x0200 }, m.code ^ 0x0001, m.id.wrapping_add(0x0101_0101));
            r.header_mut().version = ipp::model::IppVersion(nv);
            r.header_mut().operation_or_status = nc;
            r.header_mut().request_id = ni;
            expected[..8].copy_from_slice(&hdr_of(nv, nc, ni));
            rep.count("header_changed_after_first_encoding", 1);
        }
        expected.extend_from_slice(&payload);
        let got: Result<Result<(Vec<u8>, u32), String>, String> = if consume_async {
            let sh = [shared.clone()];
            let sz = sizes.clone();
            catch(move || {
                let mut rd: std::pin::Pin<Box<dyn AsyncRead>> = Box::pin(r.into_async_read());
                let (e, _st) = src::run(
                    async move {
                        let mut out = vec![];
                        let mut buf = vec![0u8; 65536];
                        let mut i = 0usize;
                        let mut zeros = 0u32;
                        loop {
                            let k = sz[i % sz.len()];
                            i += 1;
                            if k == 0 {
                                // a zero-length read must return 0 without disturbing the stream
                                match rd.read(&mut buf[..0]).await {
                                    Ok(0) => continue,
                                    other => return Err(format!("zero-length read returned {other:?} at offset {}", out.len())),
                                }
                            }
                            match rd.read(&mut buf[..k]).await {
                                Ok(0) => {
                                    zeros += 1;
                                    if zeros == 3 {
                                        return Ok((out, zeros));
                                    }
                                }
                                Ok(n) => {
                                    if zeros > 0 {
                                        return Err(format!("data after end-of-stream at offset {}", out.len()));
                                    }
                                    out.extend_from_slice(&buf[..n]);
                                }
                                Err(e) => return Err(format!("stream error {:?} at offset {}", e.kind(), out.len())),
                            }
                        }
                    },
                    &sh,
                    MAX_IDLE_POLLS,
                );
                match e {
                    Exec::Ready(r) => r,
                    Exec::Deadlock => Err("async stream returned Pending without a registered wake-up".into()),
                    Exec::BusyLoop => Err("async stream polled without progress".into()),
                }
            })
        } else {
            let sz = sizes.clone();
            // every 4th blocking consumption of an async payload changes threads half-way: the stream is read on one thread until
            // the first payload bytes have arrived, then handed to another thread that reads the rest (the reader is Send)
            let hop = kind == 2 && idx % 4 == 2 && !HOP_DISABLED.load(std::sync::atomic::Ordering::Relaxed);
            if hop {
                rep.count("thread_hops", 1);
            }
            let head_len = head.len();
            let watch = shared.clone();
            // the blocking bridge parks the thread in block_on: run it on a helper thread with a generous watchdog
            let (tx, rx) = std::sync::mpsc::channel();
            std::thread::Builder::new()
                .stack_size(4 << 20)
                .spawn(move || {
                    let res = catch(move || {
                        let mut rd = r.into_read();
                        let mut out = vec![];
                        let mut buf = vec![0u8; 65536];
                        let mut i = 0usize;
                        let mut zeros = 0u32;
                        let mut interrupts = 0u32;
                        if hop {
                            // first leg on this thread: up to and including the first read that delivers payload bytes
                            loop {
                                let k = sz[i % sz.len()].max(1);
                                i += 1;
                                match rd.read(&mut buf[..k]) {
                                    Ok(0) => break,
                                    Ok(n) => {
                                        out.extend_from_slice(&buf[..n]);
                                        if out.len() > head_len {
                                            break;
                                        }
                                    }
                                    Err(e) if e.kind() == ErrorKind::Interrupted && interrupts < 100_000 => interrupts += 1,
                                    Err(e) => return Err(format!("stream error {:?} at offset {}", e.kind(), out.len())),
                                }
                            }
                            // second leg on another thread
                            let (tx2, rx2) = std::sync::mpsc::channel();
                            let sz2 = sz.clone();
                            std::thread::spawn(move || {
                                let mut rd = rd;
                                let mut out = out;
                                let mut buf = vec![0u8; 65536];
                                let mut zeros = 0u32;
                                let mut i = i;
                                let mut interrupts = 0u32;
                                let r = loop {
                                    let k = sz2[i % sz2.len()].max(1);
                                    i += 1;
                                    match rd.read(&mut buf[..k]) {
                                        Ok(0) => {
                                            zeros += 1;
                                            if zeros == 3 {
                                                break Ok((out, zeros));
                                            }
                                        }
                                        Ok(n) => {
                                            if zeros > 0 {
                                                break Err(format!("data after end-of-stream at offset {}", out.len()));
                                            }
                                            out.extend_from_slice(&buf[..n]);
                                        }
                                        Err(e) if e.kind() == ErrorKind::Interrupted && interrupts < 100_000 => interrupts += 1,
                                        Err(e) => break Err(format!("stream error {:?} at offset {}", e.kind(), out.len())),
                                    }
                                };
                                let _ = tx2.send(r);
                            });
                            return match rx2.recv() {
                                Ok(r) => r,
                                Err(_) => Err("stream error: the second thread ended without a result (panic)".to_string()),
                            };
                        }
                        loop {
                            let k = sz[i % sz.len()];
                            i += 1;
                            if k == 0 {
                                match rd.read(&mut buf[..0]) {
                                    Ok(0) => continue,
                                    Err(e) if e.kind() == ErrorKind::Interrupted => continue,
                                    other => return Err(format!("zero-length read returned {other:?} at offset {}", out.len())),
                                }
                            }
                            match rd.read(&mut buf[..k]) {
                                Ok(0) => {
                                    zeros += 1;
                                    if zeros == 3 {
                                        return Ok((out, zeros));
                                    }
                                }
                                Ok(n) => {
                                    if zeros > 0 {
                                        return Err(format!("data after end-of-stream at offset {}", out.len()));
                                    }
                                    out.extend_from_slice(&buf[..n]);
                                }
                                Err(e) if e.kind() == ErrorKind::Interrupted && interrupts < 100_000 => interrupts += 1,
                                Err(e) => return Err(format!("stream error {:?} at offset {}", e.kind(), out.len())),
                            }
                        }
                    });
                    let _ = tx.send(res);
                })
                .unwrap();
            // bounded progress instead of "eventually": once the source has signalled readiness (a helper thread called wake()),
            // the consumer has to poll it again; a consumer that has not done so 20 s after the signal has lost the wake-up
            // (a parked thread nobody will unpark). Anything else that exceeds the watchdog is inconclusive.
            let mut waited = 0u64;
            loop {
                match rx.recv_timeout(std::time::Duration::from_secs(5)) {
                    Ok(r) => break r,
                    Err(_) => {
                        waited += 5;
                        let (wakes, polls_since, secs) = watch.wake_state();
                        if wakes > 0 && polls_since == 0 && secs > 20.0 {
                            HOP_DISABLED.store(true, std::sync::atomic::Ordering::Relaxed);
                            rep.violation(
                                "C08:lost-wakeup",
                                format!("{label}{}: the payload source signalled readiness {secs:.0} s ago (wake-up #{wakes}) and was never polled again: the consuming thread is parked and the stream never ends", if hop { " (stream handed to a second thread after the first payload bytes)" } else { "" }),
                                replay.clone(),
                            );
                            return;
                        }
                        if waited >= 300 {
                            rep.inconclusive(format!("watchdog: blocking stream consumption did not finish within 300 s ({label})"));
                            return;
                        }
                    }
                }
            }
        };
        match got {
            Err(p) => rep.violation(format!("C08:panic:{}", panic_site(&p)), format!("{label}: {p}"), replay.clone()),
            Ok(Err(e)) => rep.violation(format!("C08:stream-{}", e.split(' ').take(2).collect::<Vec<_>>().join("-")), format!("{label}: {e}"), replay.clone()),
            Ok(Ok((bytes, _))) => {
                if bytes != expected {
                    let p = first_diff(&bytes, &expected);
                    let where_ = if p < head.len() { "header+attributes" } else if p == head.len() { "seam" } else { "payload" };
                    rep.violation(
                        format!("C08:bytes-differ:{where_}"),
                        format!("{label}: stream has {} bytes, expected {} (= {} header+attributes + {} payload); first difference at offset {p}", bytes.len(), expected.len(), head.len(), payload.len()),
                        replay.clone(),
                    );
                } else if !payload.is_empty() {
                    rep.nontrivial(hash64(&head) ^ payload.len() as u64 ^ ((consume_async as u64) << 63) ^ (kind << 61));
                }
                let (pos, ..) = shared.snapshot();
                if kind != 0 && pos != payload.len() {
                    rep.violation("C08:payload-source-not-drained", format!("{label}: payload source delivered {pos} of {} bytes", payload.len()), replay.clone());
                }
            }
        }
    }
}

pub fn run_c08(args: &Args, tier: &str, seed: u64) -> Report {
    let n: u64 = args.u64("--cases", tier_pick(tier, 3_000, 120_000));
    let only = args.get("--only").and_then(|s| s.parse::<u64>().ok());
    let nthreads = if only.is_some() { 1 } else { threads() };
    let parts = par(nthreads, |shard| {
        let mut rep = Report::new("C08", tier, seed);
        let mut idx = shard as u64;
        while idx < n {
            if only.map(|o| o == idx).unwrap_or(true) {
                c08_case(&mut rep, seed, idx, tier);
            }
            idx += nthreads as u64;
        }
        rep
    });
    let mut rep = merged("C08", tier, seed, parts);
    rep.rule = "G1 messages x payload source {none, IppPayload::new(scripted Read), IppPayload::new_async(scripted AsyncRead)} x payload 0 B .. MiBs delivered with random chunking / Interrupted / Pending (immediate and deferred wake; helper-thread wakes under the blocking bridge) x consumer buffer-size sequences (1 B .. 64 KiB, varying per call) x {into_read, into_async_read}. Every 7th message has no operation-attributes group. Oracle: to_bytes() of the instance starts with the message's own 8 header octets and, read by the reference decoder, means the message; collected bytes == to_bytes() of the same instance ++ payload bytes, three consecutive 0-length reads at the end, payload source fully drained; first differing offset reported. evaluations = stream consumptions; distinct_nontrivial = distinct (message, payload length, path) combinations with a non-empty payload that matched.".into();
    if only.is_none() {
        rep.require(rep.sets.get("payload_sources").map(|s| s.len()).unwrap_or(0) == 3, "all three payload sources exercised");
        rep.require(rep.counters.get("bridged_runs").copied().unwrap_or(0) > 100, "sync<->async bridge exercised");
    }
    rep.assumptions.push("a blocking consumption that does not return within 300 s is reported inconclusive (a parked block_on cannot be decided on logical steps)".into());
    rep
}

// =================================================================== C15 (allocation measure; instruction counts are driven by the python side via `cost`)

pub fn cost_parse(fam: &str, size: usize, use_async: bool, chunk: usize) -> (u64, u64, usize, String) {
    let data = Arc::new(gen::family(fam, size));
    let n = data.len();
    let before = vkit::alloc::snap();
    let out = if use_async {
        let (o, _, _) = async_parse_noinspect(&data, if chunk == 0 { 4096 } else { chunk });
        o
    } else {
        let (src, _) = Scripted::new(data.clone(), if chunk == 0 { Plan::full() } else { Plan::chunk(chunk) });
        let r = ipp::parser::IppParser::new(ipp::reader::IppReader::new(src)).parse();
        let s = match &r {
            Ok(_) => "ok".to_string(),
            Err(e) => format!("err:{:?}", errk(e)),
        };
        std::mem::forget(r);
        s
    };
    let after = vkit::alloc::snap();
    (after.bytes - before.bytes, after.calls - before.calls, n, out)
}

fn async_parse_noinspect(data: &Arc<Vec<u8>>, chunk: usize) -> (String, (), ()) {
    let (src, shared) = Scripted::new(data.clone(), Plan::chunk(chunk));
    let sh = [shared];
    let (e, _) = src::run(ipp::parser::AsyncIppParser::new(ipp::reader::AsyncIppReader::new(src)).parse(), &sh, MAX_IDLE_POLLS);
    let s = match e {
        Exec::Ready(r) => {
            let s = match &r {
                Ok(_) => "ok".to_string(),
                Err(e) => format!("err:{:?}", errk(e)),
            };
            std::mem::forget(r);
            s
        }
        _ => "hang".to_string(),
    };
    (s, (), ())
}

// ------------------------------------------------------------------ hash-flood family (C15)
//
// The attribute maps are randomly keyed per instance on the pinned tree, so nobody can prepare colliding
// names. If a change makes the hasher deterministic (same hash for the same name in every instance), a
// peer can: this family then searches names whose hashes share their low 16 bits under the library's OWN
// hasher (reached through HashMap::hasher(), autoref-specialised so that another container type simply
// yields "not applicable") and the parse of n such attributes is measured like every other family.

pub trait HasherProbe {
    fn probe(&self, name: &str) -> Option<u64>;
}
impl<S: std::hash::BuildHasher> HasherProbe for std::collections::HashMap<String, IppAttribute, S> {
    fn probe(&self, name: &str) -> Option<u64> {
        Some(self.hasher().hash_one(name))
    }
}
pub trait HasherProbeFallback {
    fn probe(&self, _name: &str) -> Option<u64> {
        None
    }
}
impl<T> HasherProbeFallback for &T {}

fn lib_hash(g: &IppAttributeGroup, name: &str) -> Option<u64> {
    #[allow(unused_imports)]
    use HasherProbeFallback as _;
    g.attributes().probe(name)
}

/// None = hasher keyed per instance (or not reachable): the family does not apply
pub fn flood_names(count: usize) -> Option<Vec<String>> {
    let a = IppAttributeGroup::new(DelimiterTag::JobAttributes);
    let b = IppAttributeGroup::new(DelimiterTag::JobAttributes);
    let c = IppAttributeGroup::new(DelimiterTag::PrinterAttributes);
    let probes = ["probe-name", "job-id", "x"];
    for p in probes {
        let (ha, hb, hc) = (lib_hash(&a, p)?, lib_hash(&b, p)?, lib_hash(&c, p)?);
        if ha != hb || ha != hc {
            return None;
        }
    }
    // deterministic across instances: collect names with equal low 16 hash bits
    let target = lib_hash(&a, "flood-0")? & 0xffff;
    let mut out = vec![];
    let mut i: u64 = 0;
    while out.len() < count && i < 4_000_000_000 {
        let name = format!("f{i:x}");
        if lib_hash(&a, &name)? & 0xffff == target {
            out.push(name);
        }
        i += 1;
    }
    Some(out)
}

/// `floodgen --count N --out FILE`: writes colliding names (one per line) or "KEYED"
pub fn run_floodgen(args: &Args) {
    let count = args.u64("--count", 20000) as usize;
    let out = args.str("--out", "/dev/stdout");
    match flood_names(count) {
        None => {
            std::fs::write(&out, "KEYED\n").unwrap();
            println!("FLOOD hasher is keyed per instance (or not a HashMap): hash-flood family not applicable");
        }
        Some(names) => {
            std::fs::write(&out, names.join("\n") + "\n").unwrap();
            println!("FLOOD hasher is deterministic across instances: {} colliding names written", names.len());
        }
    }
}

/// message with the first n colliding names as attributes of one group
pub fn flood_message(names: &[String], n: usize) -> Vec<u8> {
    let mut v = gen::HDR.to_vec();
    v.push(0x02);
    for name in names.iter().take(n) {
        gen::tnv(&mut v, 0x21, name.as_bytes(), &[0, 0, 0, 1]);
    }
    v.push(0x03);
    v
}

/// `cost`: parse one family member and exit (run under cachegrind by the driver); prints the allocation figures
pub fn run_cost(args: &Args) {
    let fam = args.str("--family", "nest");
    let size = args.u64("--size", 4096) as usize;
    if fam == "hash-flood" {
        // names prepared by `floodgen` (natively); validate under THIS process's hasher first
        let file = args.str("--names-file", "");
        let names: Vec<String> = std::fs::read_to_string(&file).unwrap_or_default().lines().map(|s| s.to_string()).collect();
        let g = IppAttributeGroup::new(DelimiterTag::JobAttributes);
        let ok = names.len() > 100 && {
            let t = lib_hash(&g, &names[0]).map(|h| h & 0xffff);
            t.is_some() && names.iter().take(100).all(|n| lib_hash(&g, n).map(|h| h & 0xffff) == t)
        };
        if !ok {
            println!("COST family=hash-flood NOT-APPLICABLE (the names do not collide under this process's hasher)");
            return;
        }
        let n = (size / 12).min(names.len());
        let data = Arc::new(flood_message(&names, n));
        let before = vkit::alloc::snap();
        let (src, _) = Scripted::new(data.clone(), Plan::full());
        let r = ipp::parser::IppParser::new(ipp::reader::IppReader::new(src)).parse();
        let after = vkit::alloc::snap();
        println!("COST family=hash-flood size={size} input_bytes={} alloc_bytes={} alloc_calls={} outcome={}", data.len(), after.bytes - before.bytes, after.calls - before.calls, if r.is_ok() { "ok" } else { "err" });
        std::mem::forget(r);
        return;
    }
    let (bytes, calls, n, out) = cost_parse(&fam, size, args.has("--async"), args.u64("--chunk", 0) as usize);
    println!("COST family={fam} size={size} input_bytes={n} alloc_bytes={bytes} alloc_calls={calls} outcome={out}");
}

pub const RATIO_LIMIT: f64 = 2.6;

/// Growth of the last doubling of a (input bytes, cost) series: 2 x the marginal cost per input byte of the last step over the
/// steepest marginal cost of any earlier step whose increment exceeds `floor`. Where the marginal cost never falls this is the
/// plain ratio of successive increments (linear 2, quadratic 4); a step that got *cheaper* (another buffering regime for larger
/// values) does not make the next, ordinary one look super-linear.
pub fn growth(pts: &[(f64, f64)], floor: f64) -> Option<f64> {
    if pts.len() < 3 {
        return None;
    }
    let m: Vec<(f64, f64)> = pts.windows(2).map(|w| ((w[1].1 - w[0].1) / (w[1].0 - w[0].0).max(1.0), w[1].1 - w[0].1)).collect();
    let prev = m[..m.len() - 1].iter().filter(|(_, d)| *d > floor).map(|(x, _)| *x).fold(0.0f64, f64::max);
    let (a, b) = (pts[pts.len() - 2].0, pts[pts.len() - 1].0);
    if prev <= 0.0 || b - a < 0.25 * a {
        return None; // nothing to compare with, or the family's generator did not actually grow the input
    }
    Some(2.0 * m[m.len() - 1].0 / prev)
}

pub fn run_c15(args: &Args, tier: &str, seed: u64) -> Report {
    let max: usize = args.u64("--max", tier_pick(tier, 256 << 10, 1 << 20)) as usize;
    let mut rep = Report::new("C15", tier, seed);
    let only = args.get("--only").map(|s| s.to_string());
    // single-threaded on purpose: the counting allocator is process-global
    // delivery: 0 = whole reads (blocking) / 4 KiB chunks (async); 13 = short reads, for the families made of long elements
    let mut jobs: Vec<(&str, bool, usize)> = vec![];
    for fam in gen::FAMILIES {
        for use_async in [false, true] {
            jobs.push((fam, use_async, 0));
            if ["value-len", "name-len", "attr-count", "nest"].contains(&fam) {
                jobs.push((fam, use_async, 13));
            }
        }
    }
    {
        for (fam, use_async, chunk) in jobs {
            let key = format!("{fam}/{}{}", if use_async { "async" } else { "blocking" }, if chunk > 0 { format!("/reads-of-{chunk}") } else { String::new() });
            if only.as_ref().map(|o| o != &key).unwrap_or(false) {
                continue;
            }
            let mut series: Vec<(usize, u64, u64)> = vec![];
            let mut size = 2048usize;
            let mut stopped = false;
            // a doubling above the limit is only a suspicion (a one-off step up in marginal cost - another buffering regime for larger
            // elements - is still linear); the next doubling, taken even beyond --max, confirms or clears it
            let mut suspect = [false; 2];
            while (size <= max || (suspect.iter().any(|s| *s) && size <= 2 * max)) && !stopped {
                rep.eval();
                let (bytes, calls, n, out) = cost_parse(fam, size, use_async, chunk);
                rep.seen("outcomes", format!("{key}: {out}"));
                series.push((n, bytes, calls));
                rep.nontrivial(hash64(format!("{key}/{size}").as_bytes()));
                let replay = vec!["c15".to_string(), "--only".into(), key.clone(), "--max".into(), size.to_string()];
                // absolute bound: constant multiple of the input
                if bytes > (256 << 10) + 1024 * n as u64 {
                    rep.violation(format!("C15:alloc-absolute:{fam}"), format!("{key}: {bytes} bytes allocated while parsing {n} input bytes (> 256 KiB + 1024 x n)"), replay.clone());
                    stopped = true;
                }
                let k = series.len();
                if k >= 3 {
                    for (what, sel) in [("alloc-bytes", 1usize), ("alloc-calls", 2)] {
                        let was_suspect = std::mem::replace(&mut suspect[sel - 1], false);
                        let c = |i: usize| -> f64 {
                            if sel == 1 {
                                series[i].1 as f64
                            } else {
                                series[i].2 as f64
                            }
                        };
                        let pts: Vec<(f64, f64)> = (0..k).map(|i| (series[i].0 as f64, c(i))).collect();
                        if let Some(ratio) = growth(&pts, 1024.0) {
                            rep.max("max_ratio_x1000", (ratio * 1000.0) as i64);
                            if ratio > RATIO_LIMIT && !was_suspect {
                                suspect[sel - 1] = true;
                                rep.count("doublings_above_the_limit_awaiting_confirmation", 1);
                            } else if ratio > RATIO_LIMIT {
                                rep.violation(
                                    format!("C15:superlinear-{what}:{fam}"),
                                    format!("{key}: {what} grows by x{ratio:.2} per doubling (against the steepest earlier doubling, second doubling in a row above the limit) at {n} input bytes (series (input, bytes, calls): {series:?}); linear is 2, quadratic 4, limit {RATIO_LIMIT}"),
                                    replay.clone(),
                                );
                                stopped = true;
                            } else if was_suspect {
                                rep.count("one_off_steps_in_marginal_cost_cleared", 1);
                            }
                        }
                    }
                }
                size *= 2;
            }
            if rep.samples.len() < 6 && (fam == "nest" || fam == "attr-count" || fam == "endcoll-flood") {
                rep.sample(J::obj().with("family", key.as_str()).with("series_input_allocbytes_alloccalls", J::Arr(series.iter().map(|s| J::Arr(vec![J::Int(s.0 as i64), J::Int(s.1 as i64), J::Int(s.2 as i64)])).collect())));
            }
            rep.max("max_input_bytes", series.last().map(|s| s.0 as i64).unwrap_or(0));
        }
    }
    // ---- the same with a logger installed that takes every level: the volume the library formats into its log records while
    // parsing is a step measure too (records that print what has been collected so far grow quadratically)
    if args.has("--logged") {
        vkit::util::install_logger();
        let lmax = max.min(64 << 10);
        for fam in ["nest", "nest-multi", "coll-set", "set-width", "set-width-mixed", "member-width-mixed", "attr-count", "member-count", "group-count", "value-len-text", "unterminated"] {
            for use_async in [false, true] {
                let key = format!("{fam}/{}/logged", if use_async { "async" } else { "blocking" });
                if only.as_ref().map(|o| o != &key).unwrap_or(false) {
                    continue;
                }
                let mut series: Vec<(usize, u64, u64)> = vec![];
                let mut size = 2048usize;
                let mut suspect = [false; 2];
                while size <= lmax || (suspect.iter().any(|s| *s) && size <= 2 * lmax) {
                    rep.eval();
                    let l0 = vkit::util::LOGGED_BYTES.load(std::sync::atomic::Ordering::Relaxed);
                    let (bytes, _calls, n, _out) = cost_parse(fam, size, use_async, 0);
                    let logged = vkit::util::LOGGED_BYTES.load(std::sync::atomic::Ordering::Relaxed) - l0;
                    series.push((n, logged, bytes));
                    rep.nontrivial(hash64(format!("{key}/{size}").as_bytes()));
                    let k = series.len();
                    let mut stop = false;
                    if k >= 3 {
                        for (what, sel) in [("logged-bytes", 1usize), ("alloc-bytes-while-logging", 2)] {
                            let c = |i: usize| if sel == 1 { series[i].1 as f64 } else { series[i].2 as f64 };
                            let pts: Vec<(f64, f64)> = (0..k).map(|i| (series[i].0 as f64, c(i))).collect();
                            let g = growth(&pts, 1024.0).unwrap_or(0.0);
                            let was_suspect = std::mem::replace(&mut suspect[sel - 1], false);
                            if g > RATIO_LIMIT && !was_suspect {
                                suspect[sel - 1] = true;
                                rep.count("doublings_above_the_limit_awaiting_confirmation", 1);
                            } else if g > RATIO_LIMIT {
                                rep.violation(
                                    format!("C15:superlinear-{what}:{fam}"),
                                    format!("{key}: {what} grows by x{g:.2} per doubling (against the steepest earlier doubling, second doubling in a row above the limit) at {n} input bytes (series (input, logged bytes, allocated bytes): {series:?}); linear is 2, quadratic 4, limit {RATIO_LIMIT}"),
                                    vec!["c15".to_string(), "--logged".into(), "--only".into(), key.clone(), "--max".into(), size.to_string()],
                                );
                                stop = true;
                            }
                        }
                    }
                    if stop {
                        break;
                    }
                    size *= 2;
                }
                rep.count("logged_series", 1);
            }
        }
    }
    rep.rule = format!("Delivery: whole reads (blocking) / 4 KiB chunks (async), and 13-byte short reads for the long-element families. Doubling families (nesting depth with/without member names and with multi-valued members, set width, set of collections, attribute count, group count, member count, value length, name length; malformed: unterminated collections, end-collection flood, member-name flood, additional values without attribute), sizes 2 KiB .. {} KiB, both parsers. Step measures, no wall clock: (A) bytes and calls allocated during parse (counting global allocator, this step) and (I) instruction counts under cachegrind (separate layer); with --logged additionally (L) the bytes the library formats into log records, and what it allocates meanwhile, when a logger takes every level (11 families to 64 KiB). Oracle: growth per doubling = 2 x marginal cost per input byte of the last doubling / steepest marginal cost of any earlier doubling (for a cost whose marginal cost never falls this is (c(4n)-c(2n))/(c(2n)-c(n)): linear 2, quadratic 4); a violation is two doublings in a row above {RATIO_LIMIT} - one doubling above it is a suspicion that the next doubling (taken even beyond the size cap) confirms or clears, so that a one-off step between buffering regimes is not mistaken for super-linear growth - or allocated bytes > 256 KiB + 1024 x n; a series stops at its first violation. evaluations = measured parses.", max >> 10);
    rep
}

// =================================================================== C16

pub fn run_c16(_args: &Args, tier: &str, seed: u64) -> Report {
    let mut rep = Report::new("C16", tier, seed);
    rep.exhaustive = Some(true);
    let none = || vec!["c16".to_string()];
    // ---- status codes: total over 65536
    let mut used_symbols: BTreeMap<String, u32> = BTreeMap::new();
    let mut reused = IppHeader::new(IppVersion::v1_1(), 0, 1);
    std::hint::black_box(reused.status_code());
    for code in 0..=0xffffu32 {
        rep.eval();
        let c = code as u16;
        let via_header = IppHeader::new(IppVersion::v1_1(), c, 1).status_code();
        // the decoded symbol must not depend on the other header fields
        for (ver, id) in [(0x0100u16, 0u32), (0x0200, 7), (0x0202, u32::MAX), (0x0000, 1), (0xffff, 1)] {
            let other = IppHeader::new(IppVersion(ver), c, id).status_code();
            if other != via_header {
                rep.violation(format!("C16:status:depends-on-header:{code:#06x}"), format!("status {code:#06x} decodes to {via_header:?} in a 1.1 header but to {other:?} with version {ver:#06x} / request-id {id}"), none());
            }
        }
        // ... nor on what the same header object (or a clone of it) decoded before: one header re-used for every code
        reused.operation_or_status = c;
        let again = reused.status_code();
        let cloned = reused.clone();
        if again != via_header || cloned.status_code() != via_header || again.is_success() != via_header.is_success() {
            rep.violation(format!("C16:status:depends-on-history:{code:#06x}"), format!("a header object decoded with other codes before, then set to {code:#06x}, decodes to {again:?} (clone: {:?}); a fresh header gives {via_header:?}", cloned.status_code()), none());
        }
        // ... nor on the way the header came off the wire: both parsers, two protocol versions, must hand back exactly this code
        for ver in [0x0101u16, 0x0200] {
            let mut wire = ver.to_be_bytes().to_vec();
            wire.extend_from_slice(&c.to_be_bytes());
            wire.extend_from_slice(&[0x12, 0x34, 0x56, 0x78, 0x03]);
            let data = Arc::new(wire);
            for (how, o) in [("blocking", sync_parse(&data, Plan::full()).0), ("async", async_parse(&data, Plan::full()).0)] {
                rep.count("status_codes_decoded_from_the_wire", 1);
                match o {
                    Outcome::Ok(m) if m.code == c && m.version == ver && m.id == 0x12345678 => {}
                    Outcome::Ok(m) => rep.violation(
                        format!("C16:status:from-the-wire:{how}"),
                        format!("header {ver:#06x} {code:#06x} 0x12345678 read by the {how} parser gives version {:#06x}, status {:#06x}, request-id {:#x}", m.version, m.code, m.id),
                        none(),
                    ),
                    other => rep.violation(format!("C16:status:from-the-wire:{how}"), format!("header {ver:#06x} {code:#06x} read by the {how} parser: {}", other.short()), none()),
                }
            }
        }
        let direct = StatusCode::from_u16(c);
        let sym = format!("{via_header:?}");
        match reg::lookup(reg::STATUS, code) {
            Some(e) => {
                rep.nontrivial(code as u64);
                match direct {
                    Some(d) if reg::names_entry(e, &format!("{d:?}")) => {
                        if d != via_header {
                            rep.violation("C16:status:header-vs-direct", format!("status {code:#06x}: from_u16 gives {d:?}, IppHeader::status_code gives {via_header:?}"), none());
                        }
                        if d as u32 != code {
                            rep.violation("C16:status:discriminant", format!("{d:?} as integer is {:#06x}, decoded from {code:#06x}", d as u32), none());
                        }
                    }
                    other => rep.violation(format!("C16:status:wrong-symbol:{code:#06x}"), format!("registered status {code:#06x} ({}) decodes to {other:?}", e.1), none()),
                }
            }
            None => {
                // unknown, or a symbol of its own that names no registered code
                if let Some(e) = reg::find_by_name(reg::STATUS, &sym) {
                    rep.violation(format!("C16:status:alias:{code:#06x}"), format!("unregistered status {code:#06x} decodes to {sym}, the symbol of {:#06x} ({})", e.0, e.1), none());
                }
                if let Some(d) = direct {
                    if d as u32 != code {
                        rep.violation("C16:status:discriminant", format!("{d:?} as integer is {:#06x}, decoded from {code:#06x}", d as u32), none());
                    }
                }
            }
        }
        if let Some(prev) = used_symbols.get(&sym) {
            if sym != "UnknownStatusCode" && *prev != code {
                rep.violation("C16:status:two-codes-one-symbol", format!("{sym} is returned for both {prev:#06x} and {code:#06x}"), none());
            }
        } else {
            used_symbols.insert(sym.clone(), code);
        }
        let success = via_header.is_success();
        let should = reg::SUCCESS_CODES.contains(&code);
        if should && !success {
            rep.violation("C16:success:missed", format!("{code:#06x} is an RFC 8011 successful code but is_success() is false"), none());
        }
        if success && !should {
            // "nothing outside the successful class 0x0000-0x00ff ever is"
            // codes 0x0003..=0x00ff belong to the successful class: the property leaves their verdict open
            if code > 0x00ff {
                rep.violation(format!("C16:success:false-positive:{code:#06x}"), format!("{code:#06x} ({sym}) is reported successful"), none());
            }
        }
        // operations
        if let Some(op) = Operation::from_u16(c) {
            rep.count("operations_recognised", 1);
            match reg::lookup(reg::OPERATIONS, code) {
                Some(e) if reg::names_entry(e, &format!("{op:?}")) => {}
                Some(e) => rep.violation(format!("C16:operation:wrong-symbol:{code:#06x}"), format!("operation {code:#06x} is {} in the registry but decodes to {op:?}", e.1), none()),
                None => {
                    // not in the harness's table: cannot be judged, unless its symbol is the name of a registered operation with another code
                    if let Some(e) = reg::find_by_name(reg::OPERATIONS, &format!("{op:?}")) {
                        rep.violation(format!("C16:operation:alias:{code:#06x}"), format!("{code:#06x} decodes to {op:?}, the name the registry gives to {:#06x}", e.0), none());
                    } else {
                        rep.count("operations_outside_the_harness_table_unjudged", 1);
                    }
                }
            }
            if op as u32 != code {
                rep.violation("C16:operation:discriminant", format!("{op:?} as integer is {:#06x}, decoded from {code:#06x}", op as u32), none());
            }
        }
    }
    rep.count("status_symbols_distinct", used_symbols.len() as i64);
    // operations the builders emit must be recognised
    for code in [0x0002u32, 0x000B, 0x0005, 0x0006, 0x0012, 0x0008, 0x0009, 0x000A, 0x4002, 0x4004] {
        rep.eval();
        if Operation::from_u16(code as u16).is_none() {
            rep.violation(format!("C16:operation:missing:{code:#06x}"), format!("operation {code:#06x} ({}) is not recognised", reg::lookup(reg::OPERATIONS, code).map(|e| e.1).unwrap_or("?")), none());
        }
    }
    // ---- every recognised status can be displayed (C02's "displaying whatever was returned" for the status symbol)
    for code in 0..=0xffffu32 {
        if let Some(sc) = StatusCode::from_u16(code as u16) {
            match catch(|| format!("{sc} {sc:?}")) {
                Ok(t) if t.len() >= 3 => {}
                Ok(t) => rep.violation(format!("C16:status:display:{code:#06x}"), format!("status {code:#06x} displays as {t:?}"), none()),
                Err(p) => rep.violation(format!("C16:status:display-panic:{code:#06x}"), format!("displaying status {code:#06x}: {p}"), none()),
            }
        }
    }
    // ---- tags: all 256 bytes
    for b in 0..=255u32 {
        rep.eval();
        if let Some(d) = DelimiterTag::from_u8(b as u8) {
            rep.count("delimiter_tags_recognised", 1);
            match reg::lookup(reg::DELIMITERS, b) {
                Some(e) if reg::names_entry(e, &format!("{d:?}")) && d as u32 == b => {}
                // a byte missing from the harness's table is unjudged unless its symbol is the registry's name for another tag
                None if d as u32 == b && reg::find_by_name(reg::DELIMITERS, &format!("{d:?}")).is_none() => rep.count("delimiter_tags_outside_the_harness_table_unjudged", 1),
                other => rep.violation(format!("C16:delimiter:{b:#04x}"), format!("delimiter byte {b:#04x} decodes to {d:?} (as {:#04x}); registry: {other:?}", d as u32), none()),
            }
        } else if (0x01..=0x05).contains(&b) {
            // the RFC 8010 delimiters must be recognised; the ones registered later may be
            rep.violation(format!("C16:delimiter:missing:{b:#04x}"), format!("delimiter tag {b:#04x} is not recognised"), none());
        }
        if let Some(v) = ValueTag::from_u8(b as u8) {
            rep.count("value_tags_recognised", 1);
            match reg::lookup(reg::VALUE_TAGS, b) {
                Some(e) if reg::names_entry(e, &format!("{v:?}")) && v as u32 == b => {}
                None if v as u32 == b && reg::find_by_name(reg::VALUE_TAGS, &format!("{v:?}")).is_none() => rep.count("value_tags_outside_the_harness_table_unjudged", 1),
                other => rep.violation(format!("C16:value-tag:{b:#04x}"), format!("value tag {b:#04x} decodes to {v:?} (as {:#04x}); registry: {other:?}", v as u32), none()),
            }
        }
    }
    // a byte the PARSER takes as a group delimiter is reported and re-emitted as itself (all 256 bytes in first-delimiter position)
    for b in 0..=255u8 {
        rep.eval();
        let mut msg = gen::HDR.to_vec();
        if b != 0x01 {
            msg.push(0x01); // C01's domain: the first group is the operation group
        }
        msg.push(b);
        msg.extend_from_slice(&[0x21, 0, 1, b'a', 0, 4, 0, 0, 0, 7, 0x03]);
        let data = Arc::new(msg);
        let (src, _) = Scripted::new(data.clone(), Plan::full());
        if let Ok(Ok(resp)) = catch(move || ipp::parser::IppParser::new(ipp::reader::IppReader::new(src)).parse()) {
            // 0x03 ends the attributes (nothing behind it is a group), value tags start an attribute: neither is a group delimiter
            if b != 0x03 && !(0x10..=0x4a).contains(&b) {
                rep.count("bytes_parsed_as_group_delimiter", 1);
                let last = resp.attributes().groups().last().map(|g| g.tag() as u8);
                if last != Some(b) {
                    rep.violation(format!("C16:delimiter:parsed-as-other:{b:#04x}"), format!("byte {b:#04x} in delimiter position is accepted by the parser and reported as group tag {last:?}"), none());
                } else {
                    let again = resp.to_bytes();
                    if again.iter().filter(|x| **x == b).count() == 0 {
                        rep.violation(format!("C16:delimiter:re-emitted-as-other:{b:#04x}"), format!("a group parsed from delimiter {b:#04x} is written without that byte"), none());
                    }
                }
            }
        }
    }
    // a value tag the PARSER reads under a well-known attribute name stays that tag (no re-typing by name): every value tag x
    // names of the registered enum / integer / keyword attributes x a few body lengths
    for b in 0x10..=0x4au8 {
        if b == 0x34 || b == 0x37 || b == 0x4a {
            continue; // collection brackets and member names are structure, not values
        }
        for name in ["printer-state", "job-state", "finishings", "finishings-default", "orientation-requested", "print-quality", "operations-supported", "printer-state-reasons", "job-id", "copies", "attributes-charset", "x"] {
            rep.eval();
            for len in [0usize, 1, 4, 8, 9, 11] {
                let mut msg = gen::HDR.to_vec();
                msg.push(0x04);
                msg.push(b);
                msg.extend_from_slice(&(name.len() as u16).to_be_bytes());
                msg.extend_from_slice(name.as_bytes());
                msg.extend_from_slice(&(len as u16).to_be_bytes());
                msg.extend(std::iter::repeat(0u8).take(len));
                msg.push(0x03);
                let (src, _) = Scripted::new(Arc::new(msg), Plan::full());
                if let Ok(Ok(resp)) = catch(move || ipp::parser::IppParser::new(ipp::reader::IppReader::new(src)).parse()) {
                    let got = resp.attributes().groups().last().and_then(|g| g.attributes().get(name)).map(|a| a.value().to_tag());
                    rep.count("tags_parsed_under_well_known_names", 1);
                    if got != Some(b) {
                        rep.violation(format!("C16:value-tag:re-typed-by-name:{b:#04x}"), format!("a value received with tag {b:#04x} under the attribute name {name:?} is handed out with tag {got:?}"), none());
                    }
                    break;
                }
            }
        }
    }
    // a value decoded from tag byte b is emitted with tag byte b again, whatever its content (all 256 bytes, stand-alone decoder;
    // bodies: six fill patterns at eight lengths plus text samples with spaces, slashes, commas, non-ASCII, NUL and control characters)
    let mut bodies: Vec<Vec<u8>> = vec![];
    for len in [0usize, 1, 2, 4, 8, 9, 11, 16] {
        for f in 0..crate::corpus::FILLS {
            bodies.push(crate::corpus::fill(f, len));
        }
    }
    for t in ["a", "Custom Photo 4x6", "image/jpeg", "gr\u{fc}n", "a,b", "*", "na_letter_8.5x11in", "UPPER", "sp ace", "tab\there", "q\"uote", "utf-8", "en-US", "ipp://h/p", "\u{7f}", "\u{85}", "\u{20ac}", "1", "-1", "true", "none", "", "x=y", "a;b", "%41", "\\x41"] {
        bodies.push(t.as_bytes().to_vec());
    }
    for b in 0..=255u8 {
        rep.eval();
        for body in &bodies {
            if let Ok(v) = IppValue::parse(b, bytes::Bytes::from(body.clone())) {
                rep.count("decoded_values_re_emitted", 1);
                let t = v.to_tag();
                if t != b {
                    rep.violation(format!("C16:emitted-tag-differs:{b:#04x}"), format!("a value decoded from tag {b:#04x} and body {body:02x?} ({v:?}) is emitted with tag {t:#04x}"), none());
                    break;
                }
                // and the attribute framing starts with that byte
                let a = IppAttribute::new("x", v).to_bytes();
                if a.first() != Some(&b) {
                    rep.violation(format!("C16:emitted-tag-differs:{b:#04x}"), format!("attribute bytes for a value decoded from tag {b:#04x} and body {body:02x?} start with {:?}", a.first()), none());
                    break;
                }
            }
        }
    }
    // the tags the encoder emits per kind, against the registry
    for (v, want) in gen::kind_reps().iter().map(|m| (mirror::to_ipp_value(m), m)) {
        rep.eval();
        let tag = v.to_tag() as u32;
        let expect: u32 = match want {
            MVal::Integer(_) => 0x21,
            MVal::Enum(_) => 0x23,
            MVal::Boolean(_) => 0x22,
            MVal::Text { tag, .. } | MVal::WithLang { tag, .. } | MVal::Other { tag, .. } => *tag as u32,
            MVal::Range { .. } => 0x33,
            MVal::DateTime { .. } => 0x31,
            MVal::Resolution { .. } => 0x32,
            MVal::NoValue => 0x13,
            MVal::Coll(_) => 0x34,
            MVal::Set(_) => 0,
        };
        if tag != expect {
            rep.violation(format!("C16:emitted-tag:{expect:#04x}"), format!("{v:?} is emitted with tag {tag:#04x}, registry assigns {expect:#04x}"), none());
        }
    }
    // ---- attribute enums: 0..=65535 and a few negatives
    macro_rules! enum_check {
        ($ty:ty, $table:expr, $name:expr) => {
            for x in (-4i32..=65535).chain([i32::MIN, i32::MAX, 65536, 1 << 20]) {
                rep.eval();
                if let Some(v) = <$ty>::from_i32(x) {
                    rep.count(concat!($name, "_values_recognised"), 1);
                    // a value missing from the harness's table is unjudged unless its symbol names another registered value
                    let entry = if x >= 0 { reg::lookup($table, x as u32) } else { None };
                    let ok = v as i32 == x
                        && match entry {
                            Some(e) => reg::names_entry(e, &format!("{v:?}")),
                            None => x >= 0 && reg::find_by_name($table, &format!("{v:?}")).is_none(),
                        };
                    if !ok {
                        rep.violation(format!("C16:{}:{x}", $name), format!("{} value {x} decodes to {v:?} (as {}); registry: {:?}", $name, v as i32, if x >= 0 { reg::lookup($table, x as u32) } else { None }), none());
                    }
                }
            }
        };
    }
    // recognition side: a registered value the enum cannot decode. The values the pinned library does not know (none of the
    // RFC 8011 ones; for finishings those listed in FINISHINGS_NOT_IN_PINNED_TREE) are unjudged, every other registered value
    // must be recognised (a table that loses entries no longer recognises the assigned codes)
    macro_rules! recognised_check {
        ($ty:ty, $table:expr, $name:expr, $allow_missing:expr) => {
            for e in $table.iter() {
                rep.eval();
                let x = e.0 as i32;
                if <$ty>::from_i32(x).is_none() {
                    if $allow_missing.contains(&x) {
                        rep.count("registered_values_unknown_to_the_pinned_library_unjudged", 1);
                    } else {
                        rep.violation(format!("C16:{}:missing:{x}", $name), format!("{} value {x} ({}) is registered but not recognised", $name, e.1), none());
                    }
                }
            }
        };
    }
    const NONE_MISSING: [i32; 0] = [];
    recognised_check!(PrinterState, reg::PRINTER_STATE, "printer-state", NONE_MISSING);
    recognised_check!(JobState, reg::JOB_STATE, "job-state", NONE_MISSING);
    recognised_check!(Orientation, reg::ORIENTATION, "orientation-requested", ORIENTATION_NOT_IN_PINNED_TREE);
    recognised_check!(PrintQuality, reg::PRINT_QUALITY, "print-quality", NONE_MISSING);
    recognised_check!(Finishings, reg::FINISHINGS, "finishings", FINISHINGS_NOT_IN_PINNED_TREE);
    enum_check!(PrinterState, reg::PRINTER_STATE, "printer-state");
    enum_check!(JobState, reg::JOB_STATE, "job-state");
    enum_check!(Orientation, reg::ORIENTATION, "orientation-requested");
    enum_check!(PrintQuality, reg::PRINT_QUALITY, "print-quality");
    enum_check!(Finishings, reg::FINISHINGS, "finishings");
    // the states the readiness helper depends on must be recognised
    for (x, n) in [(3, "idle"), (4, "processing"), (5, "stopped")] {
        if PrinterState::from_i32(x).is_none() {
            rep.violation(format!("C16:printer-state:missing:{x}"), format!("printer-state {x} ({n}) is not recognised"), none());
        }
    }
    rep.sample(J::obj().with("status_0x040A", format!("{:?}", StatusCode::from_u16(0x040A))).with("operation_0x4002", format!("{:?}", Operation::from_u16(0x4002))).with("value_tag_0x4a", format!("{:?}", ValueTag::from_u8(0x4a))).with("finishings_85", format!("{:?}", Finishings::from_i32(85))));
    rep.rule = "Complete enumeration against registry tables embedded in the harness (RFC 8010 3.5, RFC 8011 5/App. B, PWG 5100.1, CUPS): all 65536 16-bit values through StatusCode::from_u16, IppHeader::status_code, is_success and Operation::from_u16; all 256 bytes through DelimiterTag / ValueTag; -4..=65535 (+extremes) through the five attribute enums; the tag emitted for each of the 21 non-set kinds and for every value decoded from each of the 256 tag bytes over 74 bodies (fill patterns, text with spaces / slashes / commas / non-ASCII / control characters); every recognised variant cast back to its integer. Rules: registered code -> the variant the registry names for it (name comparison modulo case/punctuation); other codes -> unknown or a symbol that names no registered code; success for 0x0000-0x0002, never for a code above 0x00ff (0x0003-0x00ff left open, as the property does); from(x) as int == x. distinct_nontrivial = registered status codes checked.".into();
    rep
}

/// registered values the pinned library's enums do not contain (measured on the pinned tree; unjudged)
const FINISHINGS_NOT_IN_PINNED_TREE: [i32; 15] = [10, 11, 12, 13, 14, 15, 16, 50, 51, 52, 53, 60, 61, 62, 63];
const ORIENTATION_NOT_IN_PINNED_TREE: [i32; 0] = [];

// =================================================================== C17

const BLOCKING: [&str; 10] = ["media-jam", "toner-empty", "spool-area-full", "cover-open", "door-open", "input-tray-missing", "output-tray-missing", "marker-supply-empty", "paused", "shutdown"];
// registered RFC 8011 5.4.12 keywords that announce, rather than report, a problem (the registered keywords that do report one
// without being on the property's list - media-empty, output-area-full, ... - are left out: the property does not classify them)
const INFORMATIONAL: [&str; 14] = [
    "", "none", "media-low", "toner-low", "media-low-warning", "marker-supply-low-report", "moving-to-paused", "connecting-to-device", "timed-out-report",
    "marker-supply-low", "output-area-almost-full", "marker-waste-almost-full", "opc-near-eol", "developer-low",
];

#[derive(Clone, Debug, PartialEq)]
enum Want {
    Err(u16),
    False,
    True,
    Unspecified,
}

#[derive(Clone, Debug)]
enum StateIn {
    Absent,
    Enum(i32),
    WrongSyntax(MVal),
}

fn c17_expect(code: u16, state: &StateIn, reasons: &Option<Vec<String>>) -> Want {
    // successful: the RFC 8011 successful codes; never a code above 0x00ff; for the unassigned codes of the successful class
    // (0x0003..=0x00ff) the property (C16) leaves the verdict to the library, and the helper must follow the library's own is_success()
    let successful = if reg::SUCCESS_CODES.contains(&(code as u32)) {
        true
    } else if code > 0x00ff {
        false
    } else {
        IppHeader::new(IppVersion::v1_1(), code, 1).status_code().is_success()
    };
    if !successful {
        return Want::Err(code);
    }
    if matches!(state, StateIn::Enum(5)) {
        return Want::False;
    }
    let blocking = reasons.as_ref().map(|r| r.iter().any(|k| BLOCKING.contains(&k.as_str()))).unwrap_or(false);
    if blocking {
        return Want::False;
    }
    match state {
        StateIn::Enum(3) | StateIn::Enum(4) => Want::True,
        _ => Want::Unspecified,
    }
}

fn c17_build(code: u16, state: &StateIn, reasons: &Option<Vec<String>>, noise: u64) -> Model {
    let mut printer: BTreeMap<String, MVal> = BTreeMap::new();
    match state {
        StateIn::Absent => {}
        StateIn::Enum(v) => {
            printer.insert("printer-state".into(), MVal::Enum(*v));
        }
        StateIn::WrongSyntax(v) => {
            printer.insert("printer-state".into(), v.clone());
        }
    }
    if let Some(r) = reasons {
        let vals: Vec<MVal> = r.iter().map(|k| MVal::Text { tag: 0x44, s: k.clone() }).collect();
        // a single keyword is what the wire gives for a 1-element set
        printer.insert("printer-state-reasons".into(), if vals.len() == 1 && noise % 2 == 0 { vals[0].clone() } else { MVal::Set(vals) });
    }
    if noise & 2 != 0 {
        printer.insert("printer-name".into(), MVal::Text { tag: 0x42, s: "paused".into() });
        printer.insert("printer-state-message".into(), MVal::Text { tag: 0x41, s: "media-jam".into() });
    }
    // further unrelated printer attributes, in varying combinations (none of them may influence the decision)
    let extra = noise >> 5;
    if extra & 1 != 0 {
        printer.insert("printer-is-accepting-jobs".into(), MVal::Boolean(extra & 2 != 0));
    }
    if extra & 4 != 0 {
        printer.insert("queued-job-count".into(), MVal::Integer((extra as i32) - 3));
        printer.insert("printer-up-time".into(), MVal::Integer(0));
    }
    if extra & 8 != 0 {
        printer.insert("printer-info".into(), MVal::Text { tag: 0x41, s: "ready".into() });
        printer.insert("printer-is-shared".into(), MVal::Boolean(true));
        printer.insert("printer-type".into(), MVal::Enum(5));
        printer.insert("job-state".into(), MVal::Enum(3));
    }
    let op = |attrs: Vec<(&str, MVal)>| ippref::MGroup { tag: 1, attrs: attrs.into_iter().map(|(k, v)| (k.to_string(), v)).collect() };
    let mut groups = vec![op(vec![("attributes-charset", MVal::Text { tag: 0x47, s: "utf-8".into() }), ("attributes-natural-language", MVal::Text { tag: 0x48, s: "en".into() })])];
    if noise & 4 != 0 {
        // unrelated groups before the printer group, carrying look-alike attributes
        let mut j = BTreeMap::new();
        j.insert("printer-state-reasons".to_string(), MVal::Text { tag: 0x44, s: "paused".into() });
        j.insert("printer-state".to_string(), MVal::Enum(5));
        groups.push(ippref::MGroup { tag: if noise & 8 != 0 { 2 } else { 5 }, attrs: j });
    }
    groups.push(ippref::MGroup { tag: 4, attrs: printer });
    if noise & 16 != 0 {
        let mut p2 = BTreeMap::new();
        p2.insert("printer-location".to_string(), MVal::Text { tag: 0x41, s: "shutdown".into() });
        if noise & 0x100 != 0 {
            // a later printer group that is idle and reports nothing: the answer is about the first one (a helper that looked at
            // every printer group would answer the same whenever the first one is blocked; when the first one is ready the later
            // one is harmless too)
            p2.insert("printer-state".to_string(), MVal::Enum(3));
            p2.insert("printer-state-reasons".to_string(), MVal::Text { tag: 0x44, s: "none".into() });
        }
        groups.push(ippref::MGroup { tag: 4, attrs: p2 });
    }
    Model { version: 0x0200, code, id: 5, groups, data: vec![] }
}

fn c17_judge(rep: &mut Report, label: &str, resp: &IppRequestResponse, want: &Want, via: &str, replay: &[String]) {
    rep.eval();
    let got = catch(|| ipp::util::is_printer_ready(resp));
    let desc = match &got {
        Ok(Ok(b)) => format!("Ok({b})"),
        Ok(Err(e)) => format!("Err({e:?})"),
        Err(p) => format!("panic {p}"),
    };
    let ok = match (&got, want) {
        (Err(_), _) => false,
        (Ok(Err(IppError::StatusError(s))), Want::Err(code)) => *s as u16 == *code || (StatusCode::from_u16(*code).is_none() && *s == StatusCode::UnknownStatusCode),
        (Ok(Ok(false)), Want::False) | (Ok(Ok(true)), Want::True) => true,
        (Ok(Ok(_)), Want::Unspecified) => true,
        _ => false,
    };
    rep.seen("decisions", format!("{want:?}").split('(').next().unwrap_or("").to_string());
    if !ok {
        let kind = match want {
            Want::Err(_) => "status-gate",
            Want::False => "blocked-reported-ready",
            Want::True => "ready-reported-blocked",
            Want::Unspecified => "panic",
        };
        rep.violation(format!("C17:{kind}"), format!("{label} ({via}): is_printer_ready gave {desc}, reference decision {want:?}"), replay.to_vec());
    }
}

fn c17_case(rep: &mut Report, code: u16, state: &StateIn, reasons: &Option<Vec<String>>, noise: u64, replay: &[String]) {
    let want = c17_expect(code, state, reasons);
    let m = c17_build(code, state, reasons, noise);
    let label = format!("status {code:#06x} state {state:?} reasons {reasons:?} noise {noise:#x}");
    rep.nontrivial(hash64(label.as_bytes()));
    // half of the in-memory responses are built through IppAttributes::add alone, some attributes first added with another
    // value and replaced later (a server filling in a response step by step)
    let via_add = hash64(label.as_bytes()) & 1 == 1 && mirror::addable(&m);
    let resp = if via_add { mirror::to_ipp_via_add(&m, noise ^ code as u64) } else { mirror::to_ipp(&m) };
    if via_add {
        rep.count("responses_built_by_additions", 1);
    }
    c17_judge(rep, &label, &resp, &want, if via_add { "built in memory by additions" } else { "built in memory" }, replay);
    // through encode -> parse: the parser decides set vs single value
    let bytes = Arc::new(ref_bytes(&m));
    let (src, _) = Scripted::new(bytes.clone(), Plan::full());
    match catch(move || ipp::parser::IppParser::new(ipp::reader::IppReader::new(src)).parse()) {
        Ok(Ok(parsed)) => c17_judge(rep, &label, &parsed, &want, "encode->parse", replay),
        other => {
            rep.eval();
            rep.violation("C17:response-not-parsed", format!("{label}: reference-encoded response was not parsed: {:?}", other.map(|r| r.map(|_| ()).map_err(|e| errk(&e)))), replay.to_vec());
        }
    }
    if rep.samples.len() < 4 && noise == 6 && code == 0 {
        rep.sample(J::obj().with("response", label.as_str()).with("reference_decision", format!("{want:?}")).with("bytes_hex", hex_short(&bytes, 200)));
    }
}

pub fn run_c17(args: &Args, tier: &str, seed: u64) -> Report {
    let nrand: u64 = args.u64("--cases", tier_pick(tier, 60_000, 3_000_000));
    let nthreads = threads();
    // grid axes
    let mut codes: Vec<u16> = vec![0, 1, 2, 3, 0x00ff, 0x0100, 0x03ff, 0xffff, 0x0600, 0x8000];
    codes.extend(reg::STATUS.iter().map(|e| e.0 as u16));
    codes.sort();
    codes.dedup();
    let states: Vec<StateIn> = vec![
        StateIn::Absent,
        StateIn::Enum(3),
        StateIn::Enum(4),
        StateIn::Enum(5),
        StateIn::Enum(0),
        StateIn::Enum(6),
        StateIn::Enum(-1),
        StateIn::WrongSyntax(MVal::Integer(5)),
        StateIn::WrongSyntax(MVal::Text { tag: 0x44, s: "stopped".into() }),
        StateIn::WrongSyntax(MVal::Set(vec![MVal::Enum(3), MVal::Enum(5)])),
    ];
    let mut reasons: Vec<Option<Vec<String>>> = vec![None];
    for k in BLOCKING.iter().chain(INFORMATIONAL.iter()) {
        reasons.push(Some(vec![k.to_string()]));
    }
    // blocking word at every position of sets of size 2..6
    for len in 2..=6usize {
        for pos in 0..len {
            for (bi, b) in BLOCKING.iter().enumerate() {
                let mut v: Vec<String> = (0..len).map(|i| INFORMATIONAL[(i + bi) % INFORMATIONAL.len()].to_string()).collect();
                v[pos] = b.to_string();
                reasons.push(Some(v));
            }
        }
        reasons.push(Some((0..len).map(|i| INFORMATIONAL[i % INFORMATIONAL.len()].to_string()).collect()));
    }
    for len in [17usize, 33] {
        for pos in 0..len {
            let mut v: Vec<String> = (0..len).map(|i| INFORMATIONAL[i % INFORMATIONAL.len()].to_string()).collect();
            v[pos] = BLOCKING[pos % BLOCKING.len()].to_string();
            reasons.push(Some(v));
        }
    }
    let states = Arc::new(states);
    let reasons = Arc::new(reasons);
    let codes = Arc::new(codes);
    let grid_total = codes.len() * states.len() * reasons.len();
    let all_codes = tier == "thorough";
    let parts = par(nthreads, |shard| {
        let mut rep = Report::new("C17", tier, seed);
        let replay = vec!["c17".to_string(), "--seed".into(), seed.to_string()];
        let mut k = shard;
        while k < grid_total {
            let c = codes[k % codes.len()];
            let s = &states[(k / codes.len()) % states.len()];
            let r = &reasons[k / codes.len() / states.len()];
            c17_case(&mut rep, c, s, r, (k as u64 * 7 + seed) % 512, &replay);
            rep.count("grid_cases", 1);
            k += nthreads;
        }
        // every status code x a few decisive states (thorough), random beyond the grid
        if all_codes {
            let mut c = shard as u32;
            while c <= 0xffff {
                for s in [StateIn::Enum(3), StateIn::Enum(5)] {
                    c17_case(&mut rep, c as u16, &s, &None, 0, &replay);
                }
                c += nthreads as u32;
            }
        }
        let mut i = shard as u64;
        while i < nrand {
            let mut r = Rng::fork(seed ^ 0xC17, i);
            let code = match r.below(3) {
                0 => r.next() as u16,
                _ => *r.pick(&[0u16, 1, 2]),
            };
            let st = match r.below(6) {
                0 => StateIn::Absent,
                1 => StateIn::Enum(r.i32()),
                2 => StateIn::WrongSyntax(gen::gen_scalar(&mut r, &G1Cfg::default(), false)),
                _ => StateIn::Enum(r.range(3, 5) as i32),
            };
            let st = if let StateIn::WrongSyntax(MVal::Enum(v)) = st { StateIn::Enum(v) } else { st };
            let rs = match r.below(5) {
                0 => None,
                _ => {
                    // mostly short sets; sometimes long ones (a blocking keyword may sit anywhere, also far behind)
                    let n = if r.chance(1, 6) { r.range(9, 64) } else { r.range(1, 8) };
                    let mut v: Vec<String> = (0..n).map(|_| if n <= 8 && r.chance(1, 6) { r.pick(&BLOCKING).to_string() } else { r.pick(&INFORMATIONAL).to_string() }).collect();
                    if n > 8 && r.chance(2, 3) {
                        let at = if r.chance(1, 2) { n - 1 - r.range(0, 2).min(n - 1) } else { r.range(0, n - 1) };
                        v[at] = r.pick(&BLOCKING).to_string();
                    }
                    Some(v)
                }
            };
            let noise = r.below(512);
            c17_case(&mut rep, code, &st, &rs, noise, &replay);
            rep.count("random_cases", 1);
            i += nthreads as u64;
        }
        rep
    });
    let mut rep = merged("C17", tier, seed, parts);
    rep.extra.insert("grid_size".into(), J::Int(grid_total as i64));
    rep.rule = "Responses from the grid {registered + boundary status codes (thorough: all 65536)} x printer-state {absent, idle, processing, stopped, other values, wrong syntax} x printer-state-reasons {absent, each single keyword of the blocking and informational vocabularies, sets of 2..6, 17 and 33 keywords with a blocking word at every position, informational-only sets, random sets of up to 64} x unrelated attributes/groups (look-alike attributes in other groups, second printer group - also an idle one reporting 'none' behind a blocked first one -, further printer attributes such as printer-is-accepting-jobs in varying combinations), plus seeded random combinations; every response judged twice: built in memory and after reference-encode -> library parse (the parser decides set vs single value). Oracle: three-valued reference decision MUST_ERR(status) / MUST_FALSE / MUST_TRUE / UNSPECIFIED (state absent/other/wrong syntax without blocking reason). distinct = by response description.".into();
    rep.require(rep.sets.get("decisions").map(|s| s.len()).unwrap_or(0) == 4, "all four reference decisions exercised");
    rep
}

// =================================================================== C19

#[derive(Clone, Debug, PartialEq)]
struct CModel {
    groups: Vec<(u8, Vec<(String, MVal)>)>,
}

impl CModel {
    fn add(&mut self, tag: u8, name: &str, v: MVal) {
        let g = match self.groups.iter_mut().find(|g| g.0 == tag) {
            Some(g) => g,
            None => {
                self.groups.push((tag, vec![]));
                self.groups.last_mut().unwrap()
            }
        };
        match g.1.iter_mut().find(|a| a.0 == name) {
            Some(a) => a.1 = v,
            None => g.1.push((name.to_string(), v)),
        }
    }
    fn from_model(m: &Model) -> CModel {
        CModel { groups: m.groups.iter().map(|g| (g.tag, g.attrs.iter().map(|(k, v)| (k.clone(), v.clone())).collect())).collect() }
    }
}

fn group_image(g: &IppAttributeGroup) -> (u8, BTreeMap<String, MVal>) {
    (g.tag() as u8, g.attributes().iter().map(|(k, a)| (if k == a.name() { k.clone() } else { format!("{k}!={}", a.name()) }, mirror::from_ipp_value(a.value()))).collect())
}

fn c19_compare(attrs: &IppAttributes, model: &CModel) -> Option<String> {
    let want: Vec<(u8, BTreeMap<String, MVal>)> = model.groups.iter().map(|g| (g.0, g.1.iter().cloned().collect())).collect();
    let got: Vec<(u8, BTreeMap<String, MVal>)> = attrs.groups().iter().map(group_image).collect();
    if got != want {
        return Some(format!("groups(): {:?} expected {:?}", summarize(&got), summarize(&want)));
    }
    for tag in 1..=5u8 {
        let got: Vec<(u8, BTreeMap<String, MVal>)> = attrs.groups_of(mirror::delim(tag)).map(group_image).collect();
        let want: Vec<(u8, BTreeMap<String, MVal>)> = want.iter().filter(|g| g.0 == tag).cloned().collect();
        if got != want {
            return Some(format!("groups_of({tag}): {:?} expected {:?}", summarize(&got), summarize(&want)));
        }
    }
    None
}

fn summarize(g: &[(u8, BTreeMap<String, MVal>)]) -> Vec<String> {
    g.iter().map(|(t, a)| format!("{t}:{{{}}}", a.iter().map(|(k, v)| format!("{k}={}", mirror::vshort(v).chars().take(24).collect::<String>())).collect::<Vec<_>>().join(","))).collect()
}

pub(crate) fn c19_run_seq(rep: &mut Report, start: &Option<Model>, ops: &[(u8, String, MVal)], label: &str, replay: &[String]) {
    rep.eval();
    let res = catch(|| {
        let (mut attrs, mut model) = match start {
            None => (IppAttributes::new(), CModel { groups: vec![] }),
            Some(m) => {
                // parser-produced starting state
                let bytes = Arc::new(ref_bytes(m));
                let (src, _) = Scripted::new(bytes, Plan::full());
                let parsed = ipp::parser::IppParser::new(ipp::reader::IppReader::new(src)).parse().expect("start state parses");
                (parsed.attributes().clone(), CModel::from_model(m))
            }
        };
        if let Some(d) = c19_compare(&attrs, &model) {
            return Some(format!("before any add: {d}"));
        }
        for (i, (tag, name, v)) in ops.iter().enumerate() {
            attrs.add(mirror::delim(*tag), IppAttribute::new(name, mirror::to_ipp_value(v)));
            model.add(*tag, name, v.clone());
            // long random sequences: full comparison after every add for the first 24, then every 9th and the last
            if i >= 24 && i % 9 != 0 && i + 1 != ops.len() {
                continue;
            }
            if let Some(d) = c19_compare(&attrs, &model) {
                return Some(format!("after add #{i} ({tag},{name}): {d}"));
            }
        }
        // into_groups consumes the container
        // ... and so do into_attributes() / into_value() (the consuming accessors must hand out the same content)
        let got: Vec<(u8, BTreeMap<String, MVal>)> = attrs
            .into_groups()
            .into_iter()
            .map(|g| {
                let tag = g.tag() as u8;
                (tag, g.into_attributes().into_iter().map(|(k, a)| (if k == a.name() { k.clone() } else { format!("{k}!={}", a.name()) }, mirror::from_ipp_value(&a.into_value()))).collect())
            })
            .collect();
        let want: Vec<(u8, BTreeMap<String, MVal>)> = model.groups.iter().map(|g| (g.0, g.1.iter().cloned().collect())).collect();
        if got != want {
            return Some(format!("into_groups(): {:?} expected {:?}", summarize(&got), summarize(&want)));
        }
        None
    });
    match res {
        Ok(None) => {}
        Ok(Some(d)) => rep.violation("C19:container-differs-from-model", format!("{label}: {d}"), replay.to_vec()),
        Err(p) => rep.violation(format!("C19:panic:{}", panic_site(&p)), format!("{label}: {p}"), replay.to_vec()),
    }
}

pub(crate) fn c19_traverse(rep: &mut Report, v: &MVal, replay: &[String]) {
    rep.eval();
    rep.count("traversals", 1);
    let iv = mirror::to_ipp_value(v);
    let want: Vec<MVal> = match v {
        MVal::Set(s) => s.clone(),
        MVal::Coll(m) => m.values().cloned().collect(), // BTreeMap: member-name order
        other => vec![other.clone()],
    };
    let res = catch(|| {
        let mut it = (&iv).into_iter();
        let mut got = vec![];
        while let Some(e) = it.next() {
            got.push(mirror::from_ipp_value(e));
            if got.len() > want.len() + 5 {
                break;
            }
        }
        let after: Vec<bool> = (0..3).map(|_| it.next().is_none()).collect();
        (got, after)
    });
    match res {
        Err(p) => rep.violation(format!("C19:panic:{}", panic_site(&p)), format!("traversal of {}: {p}", mirror::vshort(v)), replay.to_vec()),
        Ok((got, after)) => {
            if got != want {
                rep.violation("C19:traversal-differs", format!("traversal of {} visited {} item(s) {:?}, expected {} {:?}", mirror::vshort(v), got.len(), got.iter().take(4).map(mirror::vshort).collect::<Vec<_>>(), want.len(), want.iter().take(4).map(mirror::vshort).collect::<Vec<_>>()), replay.to_vec());
            } else if after != vec![true, true, true] {
                rep.violation("C19:traversal-resumes", format!("iterator over {} yielded items after returning None", mirror::vshort(v)), replay.to_vec());
            }
        }
    }
    // the same order through the rest of the Iterator protocol: whatever the traversal is driven by (nth, skip, step_by, count,
    // last, size_hint), it visits the same elements; every adapter result is capped so that a repeating iterator cannot hang
    let n = want.len();
    let cap = n + 5;
    let img = |it: &mut dyn Iterator<Item = &ipp::value::IppValue>| -> Vec<MVal> { it.take(cap).map(mirror::from_ipp_value).collect() };
    let res = catch(|| {
        let mut bad: Vec<String> = vec![];
        for j in [0usize, 1, 2, n / 2, n.saturating_sub(1), n].into_iter().filter(|j| *j <= n) {
            // advance j steps with next(), then nth(k) must be element j+k
            for k in [0usize, 1, 3] {
                let mut it = (&iv).into_iter();
                for _ in 0..j {
                    it.next();
                }
                let got = it.nth(k).map(mirror::from_ipp_value);
                if got.as_ref() != want.get(j + k) {
                    bad.push(format!("after {j} next() calls nth({k}) gave {:?}, expected element {}", got.as_ref().map(mirror::vshort), j + k));
                }
                // and the traversal continues right behind it
                let rest = img(&mut it);
                let want_rest: Vec<MVal> = want.iter().skip(j + k + 1).cloned().collect();
                if rest != want_rest {
                    bad.push(format!("after {j} next() calls and nth({k}) the rest has {} item(s), expected {}", rest.len(), want_rest.len()));
                }
            }
            let mut it = (&iv).into_iter();
            it.next();
            let skipped = img(&mut it.skip(j));
            if skipped != want.iter().skip(1 + j).cloned().collect::<Vec<_>>() {
                bad.push(format!("next() then skip({j}) gave {} item(s), expected {}", skipped.len(), n.saturating_sub(1 + j)));
            }
        }
        for step in [1usize, 2, 3] {
            let got = img(&mut (&iv).into_iter().step_by(step));
            if got != want.iter().step_by(step).cloned().collect::<Vec<_>>() {
                bad.push(format!("step_by({step}) gave {} item(s), expected {}", got.len(), want.iter().step_by(step).count()));
            }
        }
        if (&iv).into_iter().take(cap).count() != n {
            bad.push("count() differs".into());
        }
        if (&iv).into_iter().take(cap).last().map(mirror::from_ipp_value).as_ref() != want.last() {
            bad.push("last() differs".into());
        }
        let (lo, hi) = (&iv).into_iter().size_hint();
        if lo > n || hi.map(|h| h < n).unwrap_or(false) {
            bad.push(format!("size_hint ({lo}, {hi:?}) excludes the true length {n}"));
        }
        bad
    });
    match res {
        Err(p) => rep.violation(format!("C19:panic:{}", panic_site(&p)), format!("iterator protocol over {}: {p}", mirror::vshort(v)), replay.to_vec()),
        Ok(bad) if !bad.is_empty() => rep.violation("C19:traversal-differs:adapters", format!("iterator over {} ({} element(s)): {}", mirror::vshort(v), n, bad[..bad.len().min(3)].join("; ")), replay.to_vec()),
        Ok(_) => {}
    }
}

pub fn run_c19(args: &Args, tier: &str, seed: u64) -> Report {
    let k: usize = args.u64("--len", tier_pick(tier, 4, 5)) as usize;
    let nrand: u64 = args.u64("--cases", tier_pick(tier, 3_000, 100_000));
    let nthreads = threads();
    // op alphabet: 4 kinds x 2 names x 2 values
    let mut alphabet: Vec<(u8, String, MVal)> = vec![];
    for tag in [1u8, 2, 4, 5] {
        for name in ["a", "b"] {
            for v in [MVal::Integer(1), MVal::Text { tag: 0x44, s: "k".into() }] {
                alphabet.push((tag, name.to_string(), v));
            }
        }
    }
    // starting states: empty + parser-produced messages with repeated groups
    let g = |tag: u8, attrs: Vec<(&str, MVal)>| ippref::MGroup { tag, attrs: attrs.into_iter().map(|(k, v)| (k.to_string(), v)).collect() };
    let starts: Vec<Option<Model>> = vec![
        None,
        Some(Model { version: 0x0101, code: 0, id: 1, groups: vec![g(1, vec![("a", MVal::Integer(9))]), g(2, vec![("a", MVal::Integer(8))]), g(2, vec![("b", MVal::Integer(7))]), g(4, vec![]), g(2, vec![])], data: vec![] }),
        Some(Model { version: 0x0101, code: 0, id: 1, groups: vec![g(4, vec![]), g(4, vec![("a", MVal::Boolean(true)), ("b", MVal::Boolean(false))]), g(1, vec![("b", MVal::NoValue)]), g(1, vec![("a", MVal::NoValue)])], data: vec![] }),
    ];
    let starts = {
        let mut st = starts;
        st.push(Some(Model {
            version: 0x0101,
            code: 0,
            id: 1,
            groups: vec![g(1, vec![("attributes-charset", MVal::Text { tag: 0x47, s: "utf-8".into() }), ("attributes-natural-language", MVal::Text { tag: 0x48, s: "en".into() }), ("printer-uri", MVal::Text { tag: 0x45, s: "ipp://h/p".into() })]), g(2, vec![("a", MVal::Integer(1))])],
            data: vec![],
        }));
        st
    };
    // second alphabet: the names the encoder and the constructors treat specially
    let mut special: Vec<(u8, String, MVal)> = vec![];
    for tag in [1u8, 2] {
        for name in ["attributes-charset", "attributes-natural-language", "printer-uri", "job-id"] {
            for v in [MVal::Text { tag: 0x47, s: "us-ascii".into() }, MVal::Integer(7)] {
                special.push((tag, name.to_string(), v));
            }
        }
    }
    // third alphabet: names that differ only in letter case, the empty name, and values an encoder could not write (the
    // container's behaviour does not depend on encodability): 2 kinds x 4 names x 2 values
    for tag in [1u8, 2] {
        for name in ["copies", "Copies", "COPIES", ""] {
            for v in [MVal::Integer(1), MVal::Set(vec![])] {
                special.push((tag, name.to_string(), v));
            }
        }
    }
    let special = Arc::new(special);
    let total: u64 = (0..=k as u32).map(|l| 16u64.pow(l)).sum();
    let alphabet = Arc::new(alphabet);
    let starts = Arc::new(starts);
    let parts = par(nthreads, |shard| {
        let mut rep = Report::new("C19", tier, seed);
        let mut t = shard as u64;
        while t < total {
            let mut i = t;
            let mut len = 0u32;
            loop {
                let c = 16u64.pow(len);
                if i < c {
                    break;
                }
                i -= c;
                len += 1;
            }
            let seq = gen::seq_of(i, 16, len as usize);
            let ops: Vec<(u8, String, MVal)> = seq.iter().map(|&x| alphabet[x].clone()).collect();
            for (si, st) in starts.iter().enumerate() {
                if si > 0 && len as usize == k && k >= 5 && t % 4 != 0 {
                    continue; // longest sequences from parser-produced states: every 4th
                }
                let label = format!("start #{si}, adds {:?}", ops.iter().map(|o| format!("{}:{}={}", o.0, o.1, if matches!(o.2, MVal::Integer(_)) { "int" } else { "kw" })).collect::<Vec<_>>());
                let replay = vec!["c19".to_string(), "--len".into(), k.to_string(), "--seed".into(), seed.to_string()];
                if len >= 2 {
                    rep.nontrivial(hash64(label.as_bytes()));
                }
                if rep.samples.len() < 3 && t % 9973 == 5 {
                    rep.sample(J::obj().with("sequence", label.as_str()));
                }
                c19_run_seq(&mut rep, st, &ops, &label, &replay);
                rep.count("enumerated_sequences", 1);
            }
            t += nthreads as u64;
        }
        // all sequences of length <= 3 over the special-name alphabet, from every start
        let total2: u64 = (0..=3u32).map(|l| 16u64.pow(l)).sum();
        let mut t = shard as u64;
        while t < total2 {
            let mut i = t;
            let mut len = 0u32;
            loop {
                let c = 16u64.pow(len);
                if i < c {
                    break;
                }
                i -= c;
                len += 1;
            }
            let seq = gen::seq_of(i, 16, len as usize);
            for half in 0..2usize {
                let ops: Vec<(u8, String, MVal)> = seq.iter().map(|&x| special[half * 16 + x].clone()).collect();
                for (si, st) in starts.iter().enumerate() {
                    let label = format!("start #{si}, {} adds {:?}", if half == 0 { "special-name" } else { "case-variant / empty-name / empty-set" }, ops.iter().map(|o| format!("{}:{:?}={}", o.0, o.1, if matches!(o.2, MVal::Set(_)) { "empty-set" } else { "scalar" })).collect::<Vec<_>>());
                    c19_run_seq(&mut rep, st, &ops, &label, &["c19".to_string(), "--seed".into(), seed.to_string()]);
                    rep.count(if half == 0 { "enumerated_special_name_sequences" } else { "enumerated_case_variant_sequences" }, 1);
                }
            }
            t += nthreads as u64;
        }
        // random long sequences with G1 values, from parser-produced G1 messages
        let mut i = shard as u64;
        let cfg = G1Cfg { max_depth: 3, ..G1Cfg::default() };
        while i < nrand {
            let mut r = Rng::fork(seed ^ 0xC19, i);
            let start = if r.chance(1, 2) {
                let mut m = gen::gen_model(&mut r, &G1Cfg { oob_nonempty: false, ..cfg.clone() });
                m.data.clear();
                Some(m.normalize())
            } else {
                None
            };
            let n = r.range(0, 200);
            let long_name = "n".repeat(70_000);
            let names = ["a", "b", "c", "A", "B", "printer-uri", "Printer-URI", "job-id", "JOB-ID", "é", "É", "", "attributes-charset", "attributes-natural-language", "job-uri", long_name.as_str()];
            let ops: Vec<(u8, String, MVal)> = (0..n)
                .map(|_| {
                    let v = if r.chance(1, 12) { MVal::Set(vec![]) } else { gen::gen_value(&mut r, &cfg, 2, false).normalize() };
                    (*r.pick(&[1u8, 2, 3, 4, 5]), r.pick(&names).to_string(), v)
                })
                .collect();
            let label = format!("random case {i}: {} adds from {}", ops.len(), if start.is_some() { "a parsed G1 message" } else { "empty" });
            let replay = vec!["c19".to_string(), "--seed".into(), seed.to_string()];
            rep.nontrivial(hash64(label.as_bytes()));
            c19_run_seq(&mut rep, &start, &ops, &label, &replay);
            rep.count("random_sequences", 1);
            // traversal of G1 values
            for _ in 0..8 {
                let v = gen::gen_value(&mut r, &cfg, 3, false);
                rep.seen("traversed_kinds", ippref::KIND_NAMES[v.kind()]);
                c19_traverse(&mut rep, &v, &replay);
            }
            i += nthreads as u64;
        }
        if shard == 0 {
            for v in gen::kind_reps() {
                c19_traverse(&mut rep, &v, &["c19".to_string()]);
                rep.seen("traversed_kinds", ippref::KIND_NAMES[v.kind()]);
                // a one-element set of each kind visits that element once (also when the element is a collection)
                c19_traverse(&mut rep, &MVal::Set(vec![v.clone()]), &["c19".to_string()]);
                c19_traverse(&mut rep, &MVal::Set(vec![v.clone(), v.clone()]), &["c19".to_string()]);
            }
            c19_traverse(&mut rep, &MVal::Set(vec![MVal::Coll((0..3).map(|i| (format!("m{i}"), MVal::Integer(i))).collect())]), &["c19".to_string()]);
            c19_traverse(&mut rep, &MVal::Set(vec![MVal::Coll(BTreeMap::new())]), &["c19".to_string()]);
            // wide set, wide collection, empty set/collection
            c19_traverse(&mut rep, &MVal::Set((0..1000).map(MVal::Integer).collect()), &["c19".to_string()]);
            c19_traverse(&mut rep, &MVal::Coll((0..300).map(|i| (format!("m{:03}", (i * 7) % 300), MVal::Integer(i))).collect()), &["c19".to_string()]);
            c19_traverse(&mut rep, &MVal::Set(vec![]), &["c19".to_string()]);
            c19_traverse(&mut rep, &MVal::Coll(BTreeMap::new()), &["c19".to_string()]);
            rep.seen("traversed_kinds", "Array");
        }
        rep
    });
    let mut rep = merged("C19", tier, seed, parts);
    rep.rule = format!("Model-based monitor: an ordered model Vec<(kind, Vec<(name, value)>)> is stepped in lock-step with IppAttributes::add; after every operation groups(), groups_of(kind) for all five kinds and finally into_groups() are compared with the model. ALL add-sequences of length <= {k} over the 16-operation alphabet (4 kinds x 2 names x 2 values), from the empty container and from two parser-produced containers with repeated/empty groups; plus all sequences of length <= 3 over a second alphabet of the specially treated names (charset, natural-language, printer-uri, job-id) from every start incl. one that already holds them; plus random sequences of up to 200 adds (5 kinds, 10 names, G1 values) from empty or from parsed G1 messages. Traversal: &IppValue iterator vs model (set in order, collection in member-name order, scalar once, then None on three further calls) for representatives of every kind, one- and two-element sets of every kind (incl. a one-element set of a collection), wide/empty sets and collections and random G1 values. Non-trivial = sequence of >= 2 adds.");
    rep.exhaustive = Some(false);
    let tk: BTreeSet<String> = rep.sets.get("traversed_kinds").cloned().unwrap_or_default();
    rep.require(tk.len() >= 22, &format!("all kinds traversed (saw {})", tk.len()));
    rep
}

/// keep Read in scope for trait objects used above
#[allow(dead_code)]
fn _t(_: &dyn Read) {}
