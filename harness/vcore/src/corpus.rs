//! Indexed corpora shared by C02 / C05 (hostile) and C04..C07 (well-formed).
//! Every case is a pure function of (family, tier, seed, index) so that any
//! case can be re-generated for replay and sharded by index.

use ippref::WMsg;
use vkit::gen::{self, G1Cfg};
use vkit::rng::Rng;

pub const HOSTILE: [&str; 10] = ["tails", "grid", "withlang", "tokens", "mutations", "bytes12", "chains", "pairs", "strings", "preambles"];
/// what a peer speaking another protocol (or a proxy, or a broken framing layer) puts where the IPP header should be
pub const PREAMBLES: [&[u8]; 36] = [
    b"HTTP", b"HTTP/1.1 200 OK\r\n", b"HTTP/1.0 400 Bad Request\r\nContent-Type: text/html\r\n\r\n<html>", b"GET / HTTP/1.1\r\n", b"POST /ipp/print HTTP/1.1\r\n", b"PUT ", b"HEAD", b"OPTI", b"IPP/", b"ipp:", b"<htm", b"<?xm", b"<!DO", b"{\"er", b"%PDF-1.7", b"%!PS-Ado",
    b"\x16\x03\x01\x02\x00\x01\x00\x01", b"\x16\x03\x03\x00", b"\x15\x03\x03\x00\x02\x02\x28", b"SSH-2.0-", b"220 prin", b"\xef\xbb\xbf\x01\x01\x00\x02", b"\xff\xfe\x01\x00", b"\x1f\x8b\x08\x00", b"PK\x03\x04", b"\x00\x00\x00\x00\x00\x00\x00\x00", b"\xff\xff\xff\xff\xff\xff\xff\xff",
    b"1f\r\n\x01\x01\x00\x02", b"\r\n\x01\x01\x00\x02\x00\x00", b"0\r\n\r\n", b"\n\n\n\n\n\n\n\n", b"        ", b"\x01\x01", b"\x02\x00\x40\x29", b"RTSP/1.0", b"CONNECT ",
];
/// tags whose body is handed out as text
pub const STRING_TAGS: [u8; 13] = [0x30, 0x35, 0x36, 0x41, 0x42, 0x44, 0x45, 0x46, 0x47, 0x48, 0x49, 0x4a, 0x13];
/// names whose undecodable octets each expand to a 3-octet U+FFFD when decoded lossily (21846 x 3 > 65535)
pub const LONG_NAME_LENS: [usize; 5] = [21845, 21846, 32767, 32768, 65535];
pub const PAIR_LENS: [usize; 24] = [0, 1, 2, 31, 32, 33, 63, 64, 65, 100, 120, 127, 128, 129, 200, 255, 256, 257, 1023, 1024, 1025, 4095, 4096, 4097];
pub const CHAIN_LENS: [usize; 5] = [12, 256, 4096, 32764, 65535];
pub const CHAIN_WORDS: usize = 10;

pub struct Ctx {
    pub tier: String,
    pub seed: u64,
    pub pool: Vec<Vec<u8>>,
}

pub const THIRD_BYTES: [u8; 16] = [0x00, 0x01, 0x02, 0x03, 0x04, 0x05, 0x0f, 0x10, 0x21, 0x34, 0x35, 0x37, 0x4a, 0x4b, 0x80, 0xff];
pub const GRID_LENS: [u16; 18] = [0, 1, 2, 3, 4, 5, 6, 7, 8, 9, 10, 11, 12, 13, 14, 15, 16, 0xffff];
pub const FILLS: usize = 6;

pub fn fill(pattern: usize, n: usize) -> Vec<u8> {
    match pattern {
        0 => vec![0x00; n],
        1 => vec![0xff; n],
        2 => (0..n).map(|i| i as u8).collect(),
        3 => vec![b'a'; n],
        4 => (0..n).map(|i| if i % 2 == 0 { 0x00 } else { 0x01 }).collect(),
        _ => (0..n).map(|i| 0x80u8.wrapping_add((i * 37) as u8)).collect(),
    }
}

impl Ctx {
    pub fn new(tier: &str, seed: u64) -> Ctx {
        Ctx::with_pool(tier, seed, true)
    }

    /// `full_pool = false`: a small pool of small messages (interpreters such as Miri are ~4 orders of magnitude slower)
    pub fn with_pool(tier: &str, seed: u64, full_pool: bool) -> Ctx {
        // base pool for mutations / splicing: small well-formed messages from G1 and G2
        let mut pool = vec![];
        if full_pool {
            let shapes = gen::shapes();
            for m in shapes.iter().filter(|m| crate::common::ref_bytes(m).len() < 600).step_by(7) {
                pool.push(crate::common::ref_bytes(m));
            }
        }
        let n = if full_pool { 150u64 } else { 12 };
        let cfg = G1Cfg::default();
        for i in 0..n {
            let mut r = Rng::fork(seed ^ 0x9001, i);
            let m = gen::gen_model(&mut r, &cfg);
            let b = crate::common::ref_bytes(&m);
            if b.len() < if full_pool { 3000 } else { 400 } {
                pool.push(b);
            }
        }
        for i in 0..n {
            let mut r = Rng::fork(seed ^ 0x9002, i);
            let w = gen::gen_wire(&mut r, false);
            let b = ippref::encode(&w);
            if b.len() < if full_pool { 3000 } else { 400 } {
                pool.push(b);
            }
        }
        Ctx { tier: tier.to_string(), seed, pool }
    }

    fn thorough(&self) -> bool {
        self.tier == "thorough"
    }

    pub fn count(&self, fam: &str) -> u64 {
        match fam {
            "tails" => 1 + 256 + 65536 + if self.thorough() { 1 << 24 } else { 256 * 256 * 16 },
            "grid" => 256 * GRID_LENS.len() as u64 * FILLS as u64 * 2,
            "withlang" => {
                // tags(2) x L(0..=12) x pairs
                let mut n = 0u64;
                for l in 0..=12u64 {
                    let k = l + 2 + 2; // 0..=L+1, 0x7fff, 0xffff
                    n += k * k;
                }
                2 * n
            }
            "tokens" => {
                let k = if self.thorough() { 5 } else { 4 };
                (0..=k).map(|l| 16u64.pow(l)).sum()
            }
            // every tag x every single-byte value, and every tag x every byte doubled / followed by a quote, dot, NUL
            "bytes12" => 256 * 256 * 5,
            // every tag x periodic self-describing bodies (a decoder that interprets value bytes as further tags / lengths recurses or loops on these)
            "chains" => 256 * CHAIN_LENS.len() as u64 * CHAIN_WORDS as u64,
            // two consecutive elements of every pair of lengths (state carried from one name / value / member to the next:
            // reused buffers, remembered capacities), as names, as values, as member names and as member values
            "pairs" => 4 * (PAIR_LENS.len() * PAIR_LENS.len()) as u64 + (LONG_NAME_LENS.len() * 4) as u64,
            // every string of the generators' "tricky" dictionary under every text-like tag (also as the language / text parts of
            // the with-language syntaxes): displaying, re-encoding ... such values must not panic
            "strings" => (STRING_TAGS.len() * gen::TRICKY.len()) as u64,
            // foreign-protocol preambles: as they are, padded to a full header, and followed by a well-formed attribute section
            "preambles" => (PREAMBLES.len() * 3) as u64,
            "mutations" => {
                if self.thorough() {
                    2_000_000
                } else {
                    50_000
                }
            }
            _ => 0,
        }
    }

    /// input bytes + a short human label
    pub fn case(&self, fam: &str, idx: u64) -> (Vec<u8>, String) {
        match fam {
            "tails" => {
                let mut v = gen::HDR.to_vec();
                let mut i = idx;
                if i == 0 {
                    return (v, "tail[]".into());
                }
                i -= 1;
                if i < 256 {
                    v.push(i as u8);
                } else if i < 256 + 65536 {
                    i -= 256;
                    v.extend_from_slice(&[(i >> 8) as u8, i as u8]);
                } else {
                    i -= 256 + 65536;
                    if self.thorough() {
                        v.extend_from_slice(&[(i >> 16) as u8, (i >> 8) as u8, i as u8]);
                    } else {
                        v.extend_from_slice(&[(i >> 12) as u8, (i >> 4) as u8, THIRD_BYTES[(i & 15) as usize]]);
                    }
                }
                let label = format!("tail{:02x?}", &v[8..]);
                (v, label)
            }
            "grid" => {
                let trunc = idx % 2;
                let f = (idx / 2) % FILLS as u64;
                let l = (idx / 2 / FILLS as u64) % GRID_LENS.len() as u64;
                let tag = (idx / 2 / FILLS as u64 / GRID_LENS.len() as u64) as u8;
                let len = GRID_LENS[l as usize];
                let mut v = gen::HDR.to_vec();
                v.push(0x01);
                v.push(tag);
                v.extend_from_slice(&[0, 1, b'a']);
                v.extend_from_slice(&len.to_be_bytes());
                v.extend_from_slice(&fill(f as usize, len as usize));
                v.push(0x03);
                if trunc == 1 {
                    // cut inside the body (or the length field when the body is empty)
                    let cut = 1 + (len as usize / 2).max(1);
                    v.truncate(v.len() - cut);
                }
                (v, format!("grid tag={tag:#04x} len={len} fill={f} trunc={trunc}"))
            }
            "withlang" => {
                let (tag, l, l1, l2) = withlang_params(idx);
                let body = withlang_body(l, l1, l2);
                let mut v = gen::HDR.to_vec();
                v.push(0x04);
                v.push(tag);
                v.extend_from_slice(&[0, 1, b'w']);
                v.extend_from_slice(&(body.len() as u16).to_be_bytes());
                v.extend_from_slice(&body);
                v.push(0x03);
                (v, format!("withlang tag={tag:#04x} L={l} inner=({l1},{l2})"))
            }
            "bytes12" => {
                let (tag, body) = bytes12_params(idx);
                let mut v = gen::HDR.to_vec();
                v.push(0x04);
                v.push(tag);
                v.extend_from_slice(&[0, 1, b'b']);
                v.extend_from_slice(&(body.len() as u16).to_be_bytes());
                v.extend_from_slice(&body);
                v.push(0x03);
                (v, format!("bytes12 tag={tag:#04x} body={body:02x?}"))
            }
            "chains" => {
                let (tag, body, w) = chains_params(idx);
                let mut v = gen::HDR.to_vec();
                v.push(0x04);
                v.push(tag);
                v.extend_from_slice(&[0, 1, b'c']);
                v.extend_from_slice(&(body.len() as u16).to_be_bytes());
                v.extend_from_slice(&body);
                v.push(0x03);
                (v, format!("chains tag={tag:#04x} len={} word={w}", body.len()))
            }
            "pairs" => {
                let n = PAIR_LENS.len() as u64;
                let kind = idx / (n * n);
                if kind >= 4 {
                    // long names made of undecodable / decodable octets, completed by a following attribute
                    let j = idx - 4 * n * n;
                    let len = LONG_NAME_LENS[(j / 4) as usize % LONG_NAME_LENS.len()];
                    let nm: Vec<u8> = match j % 4 {
                        0 => vec![0xff; len],
                        1 => vec![0x80; len],
                        2 => (0..len).map(|i| if i + 1 == len { 0xff } else { b'a' }).collect(),
                        _ => "\u{20ac}".bytes().cycle().take(len - len % 3).collect(),
                    };
                    let mut v = gen::HDR.to_vec();
                    v.push(0x01);
                    for (name, val) in [(&nm[..], &[0u8, 0, 0, 1][..]), (&b"next"[..], &[0u8, 0, 0, 2][..])] {
                        v.push(0x21);
                        v.extend_from_slice(&(name.len() as u16).to_be_bytes());
                        v.extend_from_slice(name);
                        v.extend_from_slice(&(val.len() as u16).to_be_bytes());
                        v.extend_from_slice(val);
                    }
                    v.push(0x03);
                    return (v, format!("pairs long-name len={} fill={}", nm.len(), j % 4));
                }
                let (l1, l2) = (PAIR_LENS[((idx / n) % n) as usize], PAIR_LENS[(idx % n) as usize]);
                let name = |c: u8, l: usize| -> Vec<u8> { (0..l).map(|i| if i == 0 { c } else { b'a' + (i % 26) as u8 }).collect() };
                let mut v = gen::HDR.to_vec();
                v.push(0x01);
                let mut tnv = |tag: u8, nm: &[u8], val: &[u8]| {
                    v.push(tag);
                    v.extend_from_slice(&(nm.len() as u16).to_be_bytes());
                    v.extend_from_slice(nm);
                    v.extend_from_slice(&(val.len() as u16).to_be_bytes());
                    v.extend_from_slice(val);
                };
                match kind {
                    0 => {
                        tnv(0x21, &name(b'x', l1.max(1)), &[0, 0, 0, 1]);
                        tnv(0x21, &name(b'y', l2.max(1)), &[0, 0, 0, 2]);
                        tnv(0x21, b"z", &[0, 0, 0, 3]);
                    }
                    1 => {
                        tnv(0x41, b"a", &name(b'v', l1));
                        tnv(0x41, b"b", &name(b'w', l2));
                        tnv(0x30, b"c", &name(0xff, l1.min(l2)));
                    }
                    2 => {
                        tnv(0x34, b"c", b"");
                        tnv(0x4a, b"", &name(b'm', l1));
                        tnv(0x21, b"", &[0, 0, 0, 1]);
                        tnv(0x4a, b"", &name(b'n', l2));
                        tnv(0x21, b"", &[0, 0, 0, 2]);
                        tnv(0x37, b"", b"");
                    }
                    _ => {
                        tnv(0x34, b"c", b"");
                        tnv(0x4a, b"", b"m");
                        tnv(0x44, b"", &name(b'k', l1));
                        tnv(0x44, b"", &name(b'l', l2));
                        tnv(0x4a, b"", b"n");
                        tnv(0x35, b"", &{
                            let mut b = (l1.min(200) as u16).to_be_bytes().to_vec();
                            b.extend(name(b'e', l1.min(200)));
                            b.extend((l2.min(200) as u16).to_be_bytes());
                            b.extend(name(b't', l2.min(200)));
                            b
                        });
                        tnv(0x37, b"", b"");
                    }
                }
                v.push(0x03);
                (v, format!("pairs kind={kind} lengths=({l1},{l2})"))
            }
            "preambles" => {
                let p = PREAMBLES[(idx as usize / 3) % PREAMBLES.len()];
                let mut v = p.to_vec();
                match idx % 3 {
                    0 => {}
                    1 => {
                        while v.len() < 8 {
                            v.push(b' ');
                        }
                    }
                    _ => {
                        v.truncate(8);
                        while v.len() < 8 {
                            v.push(0);
                        }
                        v.extend_from_slice(&[0x01, 0x47, 0x00, 0x12]);
                        v.extend_from_slice(b"attributes-charset");
                        v.extend_from_slice(&[0x00, 0x05]);
                        v.extend_from_slice(b"utf-8");
                        v.push(0x03);
                        v.extend_from_slice(b"doc");
                    }
                }
                (v, format!("preambles {:?} variant {}", String::from_utf8_lossy(&p[..p.len().min(12)]), idx % 3))
            }
            "strings" => {
                let (tag, body) = strings_params(idx);
                let mut v = gen::HDR.to_vec();
                v.push(0x04);
                v.push(tag);
                v.extend_from_slice(&[0, 1, b's']);
                v.extend_from_slice(&(body.len() as u16).to_be_bytes());
                v.extend_from_slice(&body);
                v.push(0x03);
                (v, format!("strings tag={tag:#04x} body={:?}", String::from_utf8_lossy(&body)))
            }
            "tokens" => {
                let mut i = idx;
                let mut len = 0u32;
                loop {
                    let n = 16u64.pow(len);
                    if i < n {
                        break;
                    }
                    i -= n;
                    len += 1;
                }
                let seq = gen::seq_of(i, 16, len as usize);
                let label = seq.iter().map(|&t| gen::TOKEN_NAMES[t]).collect::<Vec<_>>().join(" ");
                (gen::token_msg(&seq), format!("tokens [{label}]"))
            }
            "mutations" => {
                let mut r = Rng::fork(self.seed ^ 0x3E7A, idx);
                let base = r.pick(&self.pool).clone();
                let other = r.pick(&self.pool).clone();
                let rounds = 1 + r.below(3);
                let mut v = base;
                let mut names = vec![];
                for _ in 0..rounds {
                    let (nv, which) = gen::mutate(&mut r, &v, &other);
                    v = nv;
                    names.push(gen::MUTATION_NAMES[which]);
                }
                (v, format!("mutation {}", names.join("+")))
            }
            _ => panic!("unknown family {fam}"),
        }
    }
}

/// (tag, body) of the strings family
pub fn strings_params(idx: u64) -> (u8, Vec<u8>) {
    let t = STRING_TAGS[(idx as usize) % STRING_TAGS.len()];
    let s = gen::TRICKY[(idx as usize / STRING_TAGS.len()) % gen::TRICKY.len()].as_bytes();
    let body = if t == 0x35 || t == 0x36 {
        // the string as language and as text
        let mut b = (s.len() as u16).to_be_bytes().to_vec();
        b.extend_from_slice(s);
        b.extend_from_slice(&(s.len() as u16).to_be_bytes());
        b.extend_from_slice(s);
        b
    } else {
        s.to_vec()
    };
    (t, body)
}

/// (tag, body = one short word repeated up to the length, word index)
pub fn chains_params(idx: u64) -> (u8, Vec<u8>, usize) {
    let w = (idx % CHAIN_WORDS as u64) as usize;
    let l = ((idx / CHAIN_WORDS as u64) % CHAIN_LENS.len() as u64) as usize;
    let tag = (idx / CHAIN_WORDS as u64 / CHAIN_LENS.len() as u64) as u8;
    let word: Vec<u8> = match w {
        0 => vec![0, 0, 0, tag],
        1 => vec![0, 0, 0, 0x7f],
        2 => vec![tag],
        3 => vec![0, tag],
        4 => vec![0x7f, 0, 0, 0],
        5 => vec![0, 0, 0, 0x34],
        6 => vec![0, 1, tag],
        7 => vec![tag, 0, 0],
        8 => vec![tag, 0, 0, 0, 0],
        _ => vec![0, 4, 0, 0, 0, tag],
    };
    let n = CHAIN_LENS[l];
    let body: Vec<u8> = word.iter().copied().cycle().take(n).collect();
    (tag, body, w)
}

/// (tag, 1- or 2-byte body)
pub fn bytes12_params(idx: u64) -> (u8, Vec<u8>) {
    let b = (idx % 256) as u8;
    let tag = ((idx / 256) % 256) as u8;
    let body = match idx / 65536 {
        0 => vec![b],
        1 => vec![b, b],
        2 => vec![b, b'"'],
        3 => vec![b'"', b],
        _ => vec![b, 0xc2],
    };
    (tag, body)
}

pub fn withlang_params(idx: u64) -> (u8, u16, u16, u16) {
    let tag = if idx % 2 == 0 { 0x35 } else { 0x36 };
    let mut i = idx / 2;
    for l in 0..=12u64 {
        let k = l + 4;
        if i < k * k {
            let a = i / k;
            let b = i % k;
            let val = |x: u64| -> u16 {
                if x <= l + 1 {
                    x as u16
                } else if x == l + 2 {
                    0x7fff
                } else {
                    0xffff
                }
            };
            return (tag, l as u16, val(a), val(b));
        }
        i -= k * k;
    }
    (tag, 0, 0, 0)
}

/// a body of exactly `l` octets that *claims* inner lengths l1 and l2
pub fn withlang_body(l: u16, l1: u16, l2: u16) -> Vec<u8> {
    let mut b = vec![];
    b.extend_from_slice(&l1.to_be_bytes());
    b.extend(std::iter::repeat(b'e').take((l1 as usize).min(16)));
    b.extend_from_slice(&l2.to_be_bytes());
    b.extend(std::iter::repeat(b't').take((l2 as usize).min(16)));
    b.resize(l as usize, b'#');
    b
}

// ------------------------------------------------------------------ well-formed

/// well-formed messages by index: even = G2 wire tree (any RFC form), odd = G1 model in reference encoding
pub fn wellformed_wire(seed: u64, idx: u64, big: bool) -> WMsg {
    let mut r = Rng::fork(seed ^ 0x77E1, idx);
    if idx % 2 == 0 {
        gen::gen_wire(&mut r, big)
    } else {
        let cfg = G1Cfg { oob_nonempty: false, big, ..G1Cfg::default() };
        let m = gen::gen_model(&mut r, &cfg);
        ippref::model_to_wire_like(&m, None)
    }
}
