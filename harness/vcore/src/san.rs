//! Compact mixed workload for the sanitizer layers (Miri, ASan): the same per-case
//! monitors as the native checks, on small seeded cases, so that an interpreter that
//! is four orders of magnitude slower still exercises every code path with its oracle.

use crate::c01::{c01_case, c03_case};
use crate::common::*;
use crate::corpus;
use crate::misc::{c08_case, c19_run_seq, c19_traverse};
use crate::parsers::{c04_judge, c05_compare, c06_run, decorate, random_composition, Wf};
use std::sync::Arc;
use vkit::gen::{self, G1Cfg};
use vkit::out::Report;
use vkit::rng::{hash64, Rng};
use vkit::src::Plan;
use vkit::util::Args;

fn small() -> G1Cfg {
    G1Cfg { big: false, max_depth: 3, oob_nonempty: false, max_groups: 3, max_attrs: 3 }
}

pub fn run(args: &Args, tier: &str, seed: u64) -> Report {
    let focus = args.str("--focus", "c01");
    let pid = focus.to_uppercase();
    let shard = args.u64("--shard", 0);
    let nshards = args.u64("--nshards", 1).max(1);
    let budget = args.u64("--budget", 30);
    let mut rep = Report::new(&pid, tier, seed);
    rep.max_samples = 1;
    for k in 0..budget {
        let idx = 1_000_000 + shard + k * nshards;
        let mut r = Rng::fork(seed ^ 0x5A17, idx);
        match focus.as_str() {
            "c01" => {
                let mut m = gen::gen_model(&mut r, &small());
                m.data.truncate(64);
                c01_case(&mut rep, &m, seed, idx);
            }
            "c03" => {
                let mut m = gen::gen_model(&mut r, &small());
                m.data.clear();
                c03_case(&mut rep, &m, seed, idx, 2);
            }
            "c04" => {
                let mut w = gen::gen_wire(&mut r, false);
                w.data.truncate(32);
                let bytes = ippref::encode(&w);
                if bytes.len() < 1500 {
                    c04_judge(&mut rep, &format!("san wire {idx}"), bytes, &ippref::interp(&w), &["san".to_string()]);
                }
            }
            "c05" => {
                let (bytes, label) = if k % 2 == 0 {
                    let w = corpus::wellformed_wire(seed, idx, false);
                    (ippref::encode(&w), format!("san wellformed {idx}"))
                } else {
                    let seq: Vec<usize> = (0..r.range(1, 5)).map(|_| r.below(16) as usize).collect();
                    (gen::token_msg(&seq), format!("san tokens {seq:?}"))
                };
                if bytes.len() > 1200 {
                    continue;
                }
                let data = Arc::new(bytes);
                let (reference, _) = sync_parse(&data, Plan::full());
                rep.nontrivial(hash64(&data));
                for t in 0..3u64 {
                    let comp = random_composition(&mut r, data.len());
                    let pat = r.below(8) as usize;
                    c05_compare(&mut rep, &label, &data, &reference, Plan::steps(decorate(&comp, pat, t)), "san-random", &["san".to_string()]);
                }
                c05_compare(&mut rep, &label, &data, &reference, Plan::chunk(1), "uniform-1", &["san".to_string()]);
            }
            "c06" => {
                let mut w = corpus::wellformed_wire(seed ^ 0xC06, idx, false);
                let dl = r.below(40) as usize;
                w.data = r.bytes(dl);
                let head = ippref::encode_head(&w);
                if head.len() > 1000 {
                    continue;
                }
                let head_len = head.len();
                let mut bytes = head;
                bytes.extend_from_slice(&w.data);
                let wf = Wf { bytes: Arc::new(bytes), head_len, label: format!("san case {idx}") };
                let (o, _) = sync_parse(&wf.bytes, Plan::full());
                if let Outcome::Ok(m) = o {
                    rep.nontrivial(hash64(&wf.bytes));
                    c06_run(&mut rep, &wf, &Plan::full(), "full", &m, &["san".to_string()]);
                    let comp = random_composition(&mut r, head_len);
                    let pat = r.below(8) as usize;
                    c06_run(&mut rep, &wf, &Plan::steps(decorate(&comp, pat, k)), "san-random", &m, &["san".to_string()]);
                } else {
                    rep.violation("C06:reference-parse", format!("san case {idx}: {}", o.short()), vec!["san".into()]);
                }
            }
            "c08" => c08_case(&mut rep, seed ^ 0x5A, 9_000_000 + idx * 3 + (k % 3), "lean"),
            "c19" => {
                let cfg = small();
                let n = r.range(0, 12);
                let names = ["a", "b", "printer-uri"];
                let ops: Vec<(u8, String, ippref::MVal)> = (0..n).map(|_| (*r.pick(&[1u8, 2, 4, 5]), r.pick(&names).to_string(), gen::gen_value(&mut r, &cfg, 2, false).normalize())).collect();
                rep.nontrivial(idx);
                c19_run_seq(&mut rep, &None, &ops, &format!("san case {idx}"), &["san".to_string()]);
                for _ in 0..3 {
                    let v = gen::gen_value(&mut r, &cfg, 2, false);
                    c19_traverse(&mut rep, &v, &["san".to_string()]);
                }
            }
            other => panic!("unknown focus {other}"),
        }
    }
    rep.rule = format!("sanitizer-layer workload '{focus}': {budget} small seeded cases per shard through the same per-case monitors as the native check");
    rep
}
