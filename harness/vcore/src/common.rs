//! Shared drivers: run the blocking / async parser over scripted sources and
//! classify the outcome.

use futures_util::io::AsyncReadExt;
use ipp::parser::{AsyncIppParser, IppParseError, IppParser};
use ipp::reader::{AsyncIppReader, IppReader};
use ippref::Model;
use std::io::{ErrorKind, Read};
#[allow(unused_imports)]
use ipp::prelude::*;
use std::sync::Arc;
use vkit::mirror;
use vkit::src::{self, Exec, ExecStats, Plan, Scripted, Shared};
use vkit::util::catch;

#[derive(Clone, Debug, PartialEq, Eq)]
pub enum ErrK {
    InvalidTag(u8),
    InvalidCollection,
    Io(ErrorKind),
    /// a variant this harness does not know (the library's error enum was extended) that carries no I/O error
    Other(String),
}

#[derive(Clone, Debug, PartialEq, Eq)]
pub enum Outcome {
    /// header + groups + payload bytes
    Ok(Box<Model>),
    Err(ErrK),
    /// payload stream failed after a successful parse
    PayloadErr(ErrorKind),
    Panic(String),
    /// logical-step hang verdicts
    Hang(String),
}

impl Outcome {
    pub fn short(&self) -> String {
        match self {
            Outcome::Ok(m) => format!("Ok(groups={:?}, attrs={}, payload={})", m.groups.iter().map(|g| g.tag).collect::<Vec<_>>(), m.groups.iter().map(|g| g.attrs.len()).sum::<usize>(), m.data.len()),
            other => format!("{other:?}"),
        }
    }
    pub fn class(&self) -> &'static str {
        match self {
            Outcome::Ok(_) => "ok",
            Outcome::Err(ErrK::InvalidTag(_)) => "invalid-tag",
            Outcome::Err(ErrK::InvalidCollection) => "invalid-collection",
            Outcome::Err(ErrK::Io(_)) => "io",
            Outcome::Err(ErrK::Other(_)) => "other-error",
            Outcome::PayloadErr(_) => "payload-io",
            Outcome::Panic(_) => "panic",
            Outcome::Hang(_) => "hang",
        }
    }
}

pub fn errk(e: &IppParseError) -> ErrK {
    match e {
        IppParseError::InvalidTag(t) => ErrK::InvalidTag(*t),
        IppParseError::InvalidCollection => ErrK::InvalidCollection,
        IppParseError::IoError(e) => ErrK::Io(e.kind()),
        // tolerate additions to the library's error enum: an I/O error carried in the source chain keeps its kind
        #[allow(unreachable_patterns)]
        other => {
            let mut src: Option<&(dyn std::error::Error + 'static)> = std::error::Error::source(other);
            while let Some(e) = src {
                if let Some(io) = e.downcast_ref::<std::io::Error>() {
                    return ErrK::Io(io.kind());
                }
                src = e.source();
            }
            let d = format!("{other:?}");
            ErrK::Other(d.split(|c: char| !c.is_alphanumeric() && c != '_').next().unwrap_or("").to_string())
        }
    }
}

pub use vkit::src::EOF_READ_LIMIT;

/// blocking parse of `data` delivered according to `plan`, payload read to the end
pub fn sync_parse(data: &Arc<Vec<u8>>, plan: Plan) -> (Outcome, Shared) {
    let (src, shared) = Scripted::new(data.clone(), plan);
    let sh = shared.clone();
    let r = catch(move || {
        let parsed = IppParser::new(IppReader::new(src)).parse();
        match parsed {
            Ok(mut resp) => {
                let mut m = mirror::from_ipp_head(resp.header(), resp.attributes());
                let mut buf = Vec::new();
                match read_all_sync(resp.payload_mut(), &mut buf) {
                    Ok(()) => {
                        m.data = buf;
                        Outcome::Ok(Box::new(m))
                    }
                    Err(k) => Outcome::PayloadErr(k),
                }
            }
            Err(e) => Outcome::Err(errk(&e)),
        }
    });
    let out = match r {
        Ok(o) => o,
        Err(p) => Outcome::Panic(p),
    };
    if sh.snapshot().5 > EOF_READ_LIMIT {
        return (Outcome::Hang("blocking parser kept reading after EOF".into()), shared);
    }
    (out, shared)
}

/// read to end, retrying Interrupted like std's read_to_end does, with a bound on empty progress
pub fn read_all_sync(r: &mut dyn Read, out: &mut Vec<u8>) -> Result<(), ErrorKind> {
    let mut buf = vec![0u8; 8192];
    let mut interrupts = 0u32;
    loop {
        match r.read(&mut buf) {
            Ok(0) => return Ok(()),
            Ok(n) => {
                interrupts = 0;
                out.extend_from_slice(&buf[..n]);
            }
            Err(e) if e.kind() == ErrorKind::Interrupted && interrupts < 10_000 => interrupts += 1,
            Err(e) => return Err(e.kind()),
        }
    }
}

pub const MAX_IDLE_POLLS: u64 = 10_000;

/// async parse polled by the manual executor, payload read to the end through AsyncRead
pub fn async_parse(data: &Arc<Vec<u8>>, plan: Plan) -> (Outcome, Shared, ExecStats) {
    let (src, shared) = Scripted::new(data.clone(), plan);
    let sh = [shared.clone()];
    let r = catch(|| {
        let fut = async move {
            match AsyncIppParser::new(AsyncIppReader::new(src)).parse().await {
                Ok(mut resp) => {
                    let mut m = mirror::from_ipp_head(resp.header(), resp.attributes());
                    let mut buf = Vec::new();
                    match AsyncReadExt::read_to_end(resp.payload_mut(), &mut buf).await {
                        Ok(_) => {
                            m.data = buf;
                            Outcome::Ok(Box::new(m))
                        }
                        Err(e) => Outcome::PayloadErr(e.kind()),
                    }
                }
                Err(e) => Outcome::Err(errk(&e)),
            }
        };
        src::run(fut, &sh, MAX_IDLE_POLLS)
    });
    if shared.snapshot().5 > EOF_READ_LIMIT {
        let st = match &r {
            Ok((_, st)) => st.clone(),
            Err(_) => ExecStats::default(),
        };
        return (Outcome::Hang(format!("async parser kept reading after end-of-stream (more than {EOF_READ_LIMIT} reads)")), shared, st);
    }
    match r {
        Ok((Exec::Ready(o), st)) => (o, shared, st),
        Ok((Exec::Deadlock, st)) => (Outcome::Hang("async parser returned Pending without a registered wake-up".into()), shared, st),
        Ok((Exec::BusyLoop, st)) => (Outcome::Hang(format!("async parser polled {MAX_IDLE_POLLS} times without progress")), shared, st),
        Err(p) => (Outcome::Panic(p), shared, ExecStats::default()),
    }
}

/// parse_parts() and then the rest of the stream through the source handed back by reader.into_inner() (blocking)
pub fn sync_parse_parts(data: &Arc<Vec<u8>>, plan: Plan) -> Outcome {
    let (src, _shared) = Scripted::new(data.clone(), plan);
    let r = catch(move || match IppParser::new(IppReader::new(src)).parse_parts() {
        Ok((h, attrs, reader)) => {
            let mut m = mirror::from_ipp_head(&h, &attrs);
            let mut inner = reader.into_inner();
            let mut buf = Vec::new();
            match read_all_sync(&mut inner as &mut dyn std::io::Read, &mut buf) {
                Ok(()) => {
                    m.data = buf;
                    Outcome::Ok(Box::new(m))
                }
                Err(k) => Outcome::PayloadErr(k),
            }
        }
        Err(e) => Outcome::Err(errk(&e)),
    });
    r.unwrap_or_else(Outcome::Panic)
}

/// the same through the async parser
pub fn async_parse_parts(data: &Arc<Vec<u8>>, plan: Plan) -> Outcome {
    let (src, shared) = Scripted::new(data.clone(), plan);
    let sh = [shared.clone()];
    let r = catch(|| {
        let fut = async move {
            match AsyncIppParser::new(AsyncIppReader::new(src)).parse_parts().await {
                Ok((h, attrs, reader)) => {
                    let mut m = mirror::from_ipp_head(&h, &attrs);
                    let mut inner = reader.into_inner();
                    let mut buf = Vec::new();
                    match AsyncReadExt::read_to_end(&mut inner, &mut buf).await {
                        Ok(_) => {
                            m.data = buf;
                            Outcome::Ok(Box::new(m))
                        }
                        Err(e) => Outcome::PayloadErr(e.kind()),
                    }
                }
                Err(e) => Outcome::Err(errk(&e)),
            }
        };
        src::run(fut, &sh, MAX_IDLE_POLLS)
    });
    match r {
        Ok((Exec::Ready(o), _)) => o,
        Ok((Exec::Deadlock, _)) => Outcome::Hang("async parse_parts returned Pending without a registered wake-up".into()),
        Ok((Exec::BusyLoop, _)) => Outcome::Hang(format!("async parse_parts polled {MAX_IDLE_POLLS} times without progress")),
        Err(p) => Outcome::Panic(p),
    }
}

pub fn arc(v: Vec<u8>) -> Arc<Vec<u8>> {
    Arc::new(v)
}

/// reference bytes for a value-model message (R's encoder, sorted attribute order)
pub fn ref_bytes(m: &Model) -> Vec<u8> {
    ippref::encode(&ippref::model_to_wire_like(m, None))
}

pub fn tier_pick<T>(tier: &str, quick: T, thorough: T) -> T {
    if tier == "thorough" {
        thorough
    } else {
        quick
    }
}

pub fn first_diff(a: &[u8], b: &[u8]) -> usize {
    a.iter().zip(b.iter()).position(|(x, y)| x != y).unwrap_or(a.len().min(b.len()))
}

pub fn model_summary(m: &Model) -> String {
    let t = vkit::gen::traits(m);
    format!(
        "v={:04x} code={:04x} id={} groups={:?} attrs={} depth={} mixed_set={} multi_member={} payload={}B",
        m.version,
        m.code,
        m.id,
        m.groups.iter().map(|g| g.tag).collect::<Vec<_>>(),
        m.groups.iter().map(|g| g.attrs.len()).sum::<usize>(),
        t.depth,
        t.mixed_set,
        t.multi_member,
        m.data.len()
    )
}
