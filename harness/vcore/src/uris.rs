//! G5: target URIs built from known components, and an independent splitter.

use vkit::rng::Rng;

#[derive(Clone, Debug, PartialEq, Eq)]
pub struct Parts {
    pub scheme: String,
    pub userinfo: Option<String>,
    pub host: String,
    pub port: Option<String>,
    pub path: String,
    pub query: Option<String>,
}

impl Parts {
    pub fn to_uri(&self) -> String {
        let mut s = format!("{}://", self.scheme);
        if let Some(u) = &self.userinfo {
            s.push_str(u);
            s.push('@');
        }
        s.push_str(&self.host);
        if let Some(p) = &self.port {
            s.push(':');
            s.push_str(p);
        }
        s.push_str(&self.path);
        if let Some(q) = &self.query {
            s.push('?');
            s.push_str(q);
        }
        s
    }
    pub fn port_num(&self) -> Option<u32> {
        self.port.as_ref().and_then(|p| p.parse().ok())
    }
}

/// independent splitter (RFC 3986 generic syntax, authority form only)
pub fn split(uri: &str) -> Option<Parts> {
    let (scheme, rest) = uri.split_once("://")?;
    let auth_end = rest.find(|c| c == '/' || c == '?' || c == '#').unwrap_or(rest.len());
    let (auth, tail) = rest.split_at(auth_end);
    let (userinfo, hostport) = match auth.rfind('@') {
        Some(i) => (Some(auth[..i].to_string()), &auth[i + 1..]),
        None => (None, auth),
    };
    let (host, port) = if hostport.starts_with('[') {
        let e = hostport.find(']')?;
        let h = &hostport[..=e];
        let r = &hostport[e + 1..];
        if r.is_empty() {
            (h.to_string(), None)
        } else {
            (h.to_string(), Some(r.strip_prefix(':')?.to_string()))
        }
    } else {
        match hostport.rfind(':') {
            Some(i) => (hostport[..i].to_string(), Some(hostport[i + 1..].to_string())),
            None => (hostport.to_string(), None),
        }
    };
    let tail = tail.split('#').next().unwrap_or("");
    let (path, query) = match tail.split_once('?') {
        Some((p, q)) => (p.to_string(), Some(q.to_string())),
        None => (tail.to_string(), None),
    };
    Some(Parts { scheme: scheme.to_string(), userinfo, host, port, path, query })
}

/// look-alike targets mapped just BEFORE the judged one: a pure mapping is unaffected by them, one that remembers
/// earlier work (a cache keyed too coarsely: case-insensitive, without user-info, without port / query ...) is not
pub fn neighbours(p: &Parts, idx: u64) -> Vec<String> {
    let swap = |s: &str| -> String { s.chars().map(|c| if c.is_ascii_lowercase() { c.to_ascii_uppercase() } else if c.is_ascii_uppercase() { c.to_ascii_lowercase() } else { c }).collect() };
    let mut out = vec![];
    // 1. authority with the letter case swapped (user-info included; %XX escapes keep their hex digits valid either way)
    let mut a = p.clone();
    a.userinfo = a.userinfo.as_ref().map(|u| swap(u));
    a.host = swap(&a.host);
    out.push(a.to_uri());
    // 2. one more, rotating: other credentials / no credentials / other port / other query / other scheme spelling / other path case
    let mut b = p.clone();
    let default_port = |scheme: &str| match scheme {
        "http" => "80",
        "https" | "ipps" => "443",
        _ => "631",
    };
    // 3. the same target with its default port spelled out / left out (equal "effective" ports, different texts)
    let mut c = p.clone();
    c.port = match p.port.as_deref() {
        None => Some(default_port(&p.scheme).to_string()),
        Some(x) if x == default_port(&p.scheme) || x == "631" || x == "443" || x == "80" => None,
        Some(_) => Some(default_port(&p.scheme).to_string()),
    };
    out.push(c.to_uri());
    match idx % 6 {
        0 => b.userinfo = Some("other:secret".into()),
        1 => b.userinfo = None,
        2 => b.port = Some(if p.port.as_deref() == Some("8080") { "8081".into() } else { "8080".into() }),
        3 => b.query = Some("other=query".into()),
        4 => {
            b.scheme = match p.scheme.as_str() {
                "ipp" => "ipps".into(),
                "ipps" => "ipp".into(),
                "http" => "https".into(),
                _ => "http".into(),
            }
        }
        _ => b.path = swap(&p.path),
    }
    out.push(b.to_uri());
    out
}

pub fn norm_path(p: &str) -> &str {
    if p.is_empty() {
        "/"
    } else {
        p
    }
}

pub const SCHEMES: [&str; 4] = ["http", "https", "ipp", "ipps"];
pub const HOSTS: [&str; 10] = ["printer.example.com", "localhost", "192.168.1.20", "[::1]", "[2001:db8::1:631]", "h", "PRINTER.Example.COM", "a-b.c_d", "[fe80::1]", "printer.local."];
pub const PORTS: [Option<&str>; 8] = [None, Some("1"), Some("80"), Some("443"), Some("631"), Some("65535"), Some("8631"), Some("0631")];
pub const USERINFO: [Option<&str>; 8] = [None, Some("user"), Some("user:TAINTpw"), Some("us%40er:TAINT%3Apw"), Some("TAINTu:"), Some(":TAINTp"), Some("adm:TAINTp@ss"), Some("TAINTa@b@c:x")];
pub const PATHS: [&str; 9] = ["", "/", "/a/b", "/printers/My%20Printer", "/ipp/print", "/a//b/", "/%7Euser/x.y-z_~", "/very/long/path/segment/segment/segment/segment/segment/segment/segment/segment/segment/end", "//double/leading"];

/// a path of about `n` octets
pub fn long_path(n: usize) -> String {
    let mut s = String::new();
    let mut i = 0;
    while s.len() < n {
        s.push_str(&format!("/seg{i:04}"));
        i += 1;
    }
    s
}
pub const QUERIES: [Option<&str>; 6] = [None, Some(""), Some("TAINTq=1"), Some("u=TAINTa@b:c"), Some("x=1&y=TAINT"), Some("TAINT/with/slash")];
/// CUPS-style device-URI options and other queries a mapping might be tempted to interpret
pub const OPTION_QUERIES: [&str; 12] = ["encryption=required", "encryption=always", "Encryption=Required", "encryption=never", "waitjob=false", "waitprinter=false", "version=2.0", "contimeout=30", "snmp=false", "encryption=required&waitjob=false", "x=1&encryption=always", "port=443"];

/// the exhaustive component grid
pub fn grid() -> Vec<Parts> {
    let mut v = vec![];
    for s in SCHEMES {
        for h in HOSTS {
            for p in PORTS {
                for u in USERINFO {
                    for pa in PATHS.iter().copied() {
                        for q in QUERIES {
                            v.push(Parts {
                                scheme: s.to_string(),
                                userinfo: u.map(|x| x.to_string()),
                                host: h.to_string(),
                                port: p.map(|x| x.to_string()),
                                path: pa.to_string(),
                                query: q.map(|x| x.to_string()),
                            });
                        }
                    }
                }
            }
        }
    }
    // derived targets: the text of one component recurs inside another (a mapping that locates components by text search goes wrong)
    for s in SCHEMES {
        for h in ["printer.example.com", "h", "localhost", "192.168.1.20", "a-b.c_d", "lab+3d.example.com", "631"] {
            for p in [None, Some("631"), Some("8631")] {
                for pa in ["", "/a/b", "/h", "/printers/h:631@h"] {
                    for q in [None, Some("TAINTq=h")] {
                        for u in [format!("{h}:TAINTsecret"), format!("TAINT{h}"), h.to_string(), format!("x{h}y:TAINT"), "631:TAINT631".to_string(), "us+er:TAINTp+w".to_string(), format!("TAINT:{h}:631")] {
                            v.push(Parts { scheme: s.to_string(), userinfo: Some(u), host: h.to_string(), port: p.map(|x| x.to_string()), path: pa.to_string(), query: q.map(|x| x.to_string()) });
                        }
                    }
                }
            }
        }
    }
    // queries that read like transport options (they are part of the target, not instructions to the mapping)
    for s in SCHEMES {
        for h in ["printer.example.com", "[::1]"] {
            for p in [None, Some("631"), Some("8631")] {
                for u in [None, Some("user:TAINTpw")] {
                    for pa in ["", "/ipp/print"] {
                        for q in OPTION_QUERIES {
                            v.push(Parts { scheme: s.to_string(), userinfo: u.map(|x| x.to_string()), host: h.to_string(), port: p.map(|x| x.to_string()), path: pa.to_string(), query: Some(format!("TAINT&{q}")) });
                            v.push(Parts { scheme: s.to_string(), userinfo: u.map(|x| x.to_string()), host: h.to_string(), port: p.map(|x| x.to_string()), path: pa.to_string(), query: Some(q.to_string()) });
                        }
                    }
                }
            }
        }
    }
    // special paths: percent-escapes at the very end / start, sub-delimiters, dot segments, doubled and trailing slashes
    for s in SCHEMES {
        for h in ["printer.example.com", "[::1]", "10.0.0.7"] {
            for p in [None, Some("631")] {
                for u in [None, Some("user:TAINTpw")] {
                    for pa in [
                        "/caf%C3%A9", "/x%41", "/%41", "/a%2Fb%2F", "/sp%20", "/%7e", "/%7E/", "/a+b", "/a;b=c", "/a:b@c", "/@", "/:", "/a,b", "/!$&'()*", "/.", "/..", "/a/./b",
                        "/a/../b", "/a/", "//", "/~", "/a%25", "/%25", "/%2541", "/a=b&c=d", "/a@b:631/c",
                    ] {
                        for q in [None, Some("TAINTq%41")] {
                            v.push(Parts { scheme: s.to_string(), userinfo: u.map(|x| x.to_string()), host: h.to_string(), port: p.map(|x| x.to_string()), path: pa.to_string(), query: q.map(|x| x.to_string()) });
                        }
                    }
                }
            }
        }
    }
    v
}

fn word(rng: &mut Rng, alphabet: &[u8], lo: usize, hi: usize) -> String {
    let n = rng.range(lo, hi);
    (0..n).map(|_| *rng.pick(alphabet) as char).collect()
}

pub fn random(rng: &mut Rng) -> Parts {
    const AL: &[u8] = b"abcdefghijklmnopqrstuvwxyz0123456789";
    const UNRES: &[u8] = b"abcXYZ019-._~";
    let host = match if rng.chance(1, 24) { 6 } else { rng.below(6) } {
        6 => {
            // registered names around and beyond the DNS limit of 255 octets (http::Uri only limits the whole URI): labels of <= 63
            let want = *rng.pick(&[200usize, 253, 254, 255, 256, 257, 300, 511, 1000, 4000]);
            let mut h = String::new();
            while h.len() < want {
                let room = want - h.len();
                let l = room.min(rng.range(1, 63) as usize);
                h.push_str(&word(rng, AL, l, l));
                if h.len() < want {
                    h.push('.');
                }
            }
            if h.ends_with('.') {
                h.pop();
                h.push('x');
            }
            h
        }
        0 => format!("{}.{}.{}.{}", rng.below(256), rng.below(256), rng.below(256), rng.below(256)),
        1 => {
            let groups: Vec<String> = (0..rng.range(2, 7)).map(|_| format!("{:x}", rng.below(0x10000))).collect();
            if rng.chance(1, 2) {
                format!("[{}::{}]", groups[0], groups[1..].join(":"))
            } else {
                format!("[::{}]", groups.join(":"))
            }
        }
        2 => word(rng, b"ABCdef-123", 1, 12),
        _ => {
            let n = rng.range(1, 4);
            let mut h = (0..n).map(|_| word(rng, AL, 1, 10)).collect::<Vec<_>>().join(".");
            if rng.chance(1, 8) {
                h.push('.'); // fully qualified name with the root label
            }
            h
        }
    };
    let port = match rng.below(5) {
        0 | 1 => None,
        2 => Some(rng.range(1, 65535).to_string()),
        3 => Some(rng.pick(&["631", "80", "443", "8080", "1", "65535"]).to_string()),
        _ => Some(format!("{:05}", rng.range(1, 65535))),
    };
    let pct = |rng: &mut Rng| -> String { format!("%{:02X}", *rng.pick(&[0x20u8, 0x2f, 0x3a, 0x40, 0x3f, 0x23, 0x25, 0xc3, 0xa9, 0x7e])) };
    let userinfo = match rng.below(4) {
        0 | 1 => None,
        2 => Some(format!("TAINT{}", word(rng, UNRES, 0, 8))),
        _ => {
            let mut s = format!("{}{}", word(rng, UNRES, 0, 6), "TAINT");
            if rng.chance(1, 2) {
                s.push_str(&pct(rng));
            }
            s.push(':');
            s.push_str(&word(rng, b"abc!$&'()*+,;=-._~", 0, 8));
            if rng.chance(1, 4) {
                // http::Uri tolerates a raw '@' inside user-info (the host starts after the LAST '@')
                s.push('@');
                s.push_str(&word(rng, b"abc019", 0, 4));
            }
            s.push_str("TAINT");
            Some(s)
        }
    };
    let path = match rng.below(40) {
        0..=7 => String::new(),
        8..=15 => "/".to_string(),
        16 => long_path(*rng.pick(&[990usize, 1010, 1024, 1100, 2048, 5000, 20_000])),
        _ => {
            let n = rng.range(1, 5);
            let mut s = String::new();
            for _ in 0..n {
                s.push('/');
                s.push_str(&word(rng, b"abcXYZ019-._~!$&'()*+,;=:@", 0, 10));
                if rng.chance(1, 4) {
                    s.push_str(&pct(rng));
                }
            }
            if rng.chance(1, 5) {
                s.push('/');
            }
            s
        }
    };
    let query = match rng.below(4) {
        0 | 1 => None,
        2 => Some(String::new()),
        _ => {
            let mut s = format!("TAINT{}={}", word(rng, AL, 0, 5), word(rng, b"abc019-._~!$'()*+,;:@/?", 0, 12));
            if rng.chance(1, 3) {
                s.push_str(&pct(rng));
            }
            Some(s)
        }
    };
    Parts { scheme: rng.pick(&SCHEMES).to_string(), userinfo, host, port, path, query }
}

/// a strided subset of the grid (computed once) for programs that just need plausible targets
pub fn grid_small() -> &'static [Parts] {
    static G: std::sync::OnceLock<Vec<Parts>> = std::sync::OnceLock::new();
    G.get_or_init(|| grid().into_iter().step_by(97).collect())
}
