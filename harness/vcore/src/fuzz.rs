//! Entry points for the coverage-guided fuzzing layer: the fuzzer's bytes drive the
//! generators (vkit::rng::Rng::from_bytes) and the same per-case monitors judge the run.
//! Each returns the violations found (signature + detail); the fuzz target panics on any.

use crate::c01::{c01_case, c03_case};
use crate::c02;
use crate::common::*;
use crate::corpus;
use crate::misc::{c19_run_seq, c19_traverse};
use crate::parsers::{c04_judge, c05_compare, c06_cross, c06_run, decorate, Wf};
use std::sync::Arc;
use vkit::gen::{self, G1Cfg};
use vkit::out::Report;
use vkit::rng::{hash64, Rng};
use vkit::src::{Fallback, Plan, Step};

/// quiet panic hook that records message + site for the monitors' catch_unwind wrappers
pub fn init() {
    vkit::util::install_panic_hook();
    // every log level is taken (and discarded), so that the arguments of the library's log macros are evaluated
    vkit::util::install_logger();
}

fn cfg() -> G1Cfg {
    G1Cfg { big: false, max_depth: 4, oob_nonempty: false, max_groups: 3, max_attrs: 4 }
}

fn finish(rep: Report) -> Vec<String> {
    rep.violations.iter().map(|v| format!("{} :: {}", v.signature, v.detail)).collect()
}

fn composition_from(r: &mut Rng, n: usize) -> Vec<usize> {
    let mut v = vec![];
    let mut left = n;
    while left > 0 {
        let span = if r.below(4) == 0 { 64 } else { 6 };
        let c = (1 + r.below(span) as usize).min(left);
        v.push(c);
        left -= c;
    }
    v
}

/// C01 + C03 on a fuzzer-shaped value-model message
pub fn roundtrip(data: &[u8]) -> Vec<String> {
    let mut r = Rng::from_bytes(data);
    // one input in 16 may use the 64 KiB-class lengths (slow executions, but thresholds such as 0x8000 become reachable)
    let big = r.below(16) == 0;
    let mut m = gen::gen_model(&mut r, &G1Cfg { big, ..cfg() });
    m.data.truncate(256);
    let mut rep = Report::new("C01", "fuzz", 0);
    c01_case(&mut rep, &m, 0, 4); // idx 4: all paths incl. async; idx % 3 != 0
    c01_case(&mut rep, &m, 0, 3); // history-independence paths
    let mut rep3 = Report::new("C03", "fuzz", 0);
    let mut m3 = m.clone();
    m3.data.clear();
    c03_case(&mut rep3, &m3, 0, 0, 2);
    let mut out = finish(rep);
    out.extend(finish(rep3));
    out
}

/// C04 + C06 + C07-style cuts on a fuzzer-shaped wire tree
pub fn wellformed(data: &[u8]) -> Vec<String> {
    let mut r = Rng::from_bytes(data);
    let big = r.below(16) == 0;
    let mut w = gen::gen_wire(&mut r, big);
    w.data.truncate(64);
    let bytes = ippref::encode(&w);
    if bytes.len() > 200_000 {
        return vec![];
    }
    let mut rep = Report::new("C04", "fuzz", 0);
    c04_judge(&mut rep, "fuzz wire", bytes.clone(), &ippref::interp(&w), &["fuzz".to_string()]);
    let mut out = finish(rep);
    // C06 on the same message under a fuzzer-chosen schedule
    let head_len = bytes.len() - w.data.len();
    let wf = Wf { bytes: Arc::new(bytes.clone()), head_len, label: "fuzz wire".into() };
    let (o, _) = sync_parse(&wf.bytes, Plan::full());
    if let Outcome::Ok(m) = o {
        let mut rep6 = Report::new("C06", "fuzz", 0);
        let comp = composition_from(&mut r, head_len);
        let pat = r.below(8) as usize;
        c06_run(&mut rep6, &wf, &Plan::steps(decorate(&comp, pat, 1)), "fuzz-schedule", &m, &["fuzz".to_string()]);
        c06_cross(&mut rep6, &wf, &mut r, &["fuzz".to_string()]);
        out.extend(finish(rep6));
        // C07: one cut and one fault chosen by the fuzzer
        let mut rep7 = Report::new("C07", "fuzz", 0);
        let k = r.below(head_len as u64) as usize;
        let cut = Arc::new(bytes[..k].to_vec());
        for (o, which) in [(sync_parse(&cut, Plan::chunk(1 + r.below(9) as usize)).0, "blocking"), (async_parse(&cut, Plan::chunk(1 + r.below(9) as usize)).0, "async")] {
            if !matches!(o, Outcome::Err(_)) {
                rep7.violation(format!("C07:prefix-accepted:{which}"), format!("prefix of {k}/{head_len} bytes gave {}; head={}", o.short(), vkit::json::hex(&bytes[..head_len])), vec!["fuzz".into()]);
            }
        }
        let kinds = [std::io::ErrorKind::ConnectionReset, std::io::ErrorKind::TimedOut, std::io::ErrorKind::UnexpectedEof, std::io::ErrorKind::Other, std::io::ErrorKind::WouldBlock];
        let kind = kinds[r.below(5) as usize];
        let off = r.below(head_len as u64) as usize;
        let once = r.below(2) == 1;
        let plan = Plan { steps: vec![], fallback: if r.below(2) == 0 { Fallback::Full } else { Fallback::Chunk(1 + r.below(7) as usize) }, fail_at: Some((off, kind)), steps_start: 0, fail_once: once, thread_wake: false };
        let (o, _) = sync_parse(&wf.bytes, plan.clone());
        if o != Outcome::Err(ErrK::Io(kind)) {
            rep7.violation("C07:fault-lost:blocking", format!("{kind:?} (transient={once}) at {off}/{head_len} gave {}; head={}", o.short(), vkit::json::hex(&bytes[..head_len])), vec!["fuzz".into()]);
        }
        if kind != std::io::ErrorKind::WouldBlock {
            let (o, _, _) = async_parse(&wf.bytes, plan);
            if o != Outcome::Err(ErrK::Io(kind)) {
                rep7.violation("C07:fault-lost:async", format!("{kind:?} (transient={once}) at {off}/{head_len} gave {}; head={}", o.short(), vkit::json::hex(&bytes[..head_len])), vec!["fuzz".into()]);
            }
        }
        out.extend(finish(rep7));
    }
    out
}

/// C02 + C05 on raw fuzzer bytes: first two bytes choose the delivery schedule, the rest is the message after a valid header
pub fn hostile(data: &[u8]) -> Vec<String> {
    if data.len() < 2 {
        return vec![];
    }
    let (ctl, body) = data.split_at(2);
    let mut bytes = if ctl[0] & 1 == 0 { gen::HDR.to_vec() } else { vec![] };
    bytes.extend_from_slice(body);
    if bytes.len() > 8192 {
        return vec![];
    }
    let mut rep = Report::new("C02", "fuzz", 0);
    c02::one_input(&mut rep, "fuzz", 0, "fuzz input", bytes.clone(), &["fuzz".to_string()]);
    let mut out = finish(rep);
    // async under a schedule derived from the control bytes
    let d = Arc::new(bytes);
    let (reference, _) = sync_parse(&d, Plan::full());
    let mut rep5 = Report::new("C05", "fuzz", 0);
    let chunk = 1 + (ctl[1] as usize % 17);
    c05_compare(&mut rep5, "fuzz input", &d, &reference, Plan::chunk(chunk), "uniform", &["fuzz".to_string()]);
    let mut steps = vec![];
    for i in 0..d.len().min(200) {
        if (ctl[0] >> 1) as usize & (1 << (i % 7)) != 0 {
            steps.push(Step::Pending { deferred: i % 2 == 0 });
        }
        steps.push(Step::Chunk(1 + (ctl[1] as usize + i) % 5));
    }
    c05_compare(&mut rep5, "fuzz input", &d, &reference, Plan::steps(steps), "patterned", &["fuzz".to_string()]);
    out.extend(finish(rep5));
    out
}

/// C19 on a fuzzer-shaped add sequence and value
pub fn container(data: &[u8]) -> Vec<String> {
    let mut r = Rng::from_bytes(data);
    let c = cfg();
    let names = ["a", "b", "attributes-charset", "attributes-natural-language", "printer-uri", "job-id", "job-uri", ""];
    let n = r.below(12) as usize;
    let ops: Vec<(u8, String, ippref::MVal)> = (0..n).map(|_| ([1u8, 2, 4, 5][r.below(4) as usize], names[r.below(8) as usize].to_string(), gen::gen_value(&mut r, &c, 2, false).normalize())).collect();
    let start = if r.below(2) == 0 {
        None
    } else {
        let mut m = gen::gen_model(&mut r, &c);
        m.data.clear();
        Some(m.normalize())
    };
    let mut rep = Report::new("C19", "fuzz", 0);
    c19_run_seq(&mut rep, &start, &ops, "fuzz sequence", &["fuzz".to_string()]);
    let v = gen::gen_value(&mut r, &c, 3, false);
    c19_traverse(&mut rep, &v, &["fuzz".to_string()]);
    if r.below(3) == 0 {
        c19_traverse(&mut rep, &ippref::MVal::Set(vec![v]), &["fuzz".to_string()]);
    }
    let _ = (hash64(&[]), corpus::HOSTILE.len());
    finish(rep)
}

/// one property per fuzzing session: only that property's monitors run and only its violations are returned
pub fn run(focus: &str, data: &[u8]) -> Vec<String> {
    let all = match focus {
        "c01" | "c03" => roundtrip(data),
        "c04" | "c06" | "c07" => wellformed(data),
        "c02" | "c05" => hostile(data),
        "c19" => container(data),
        other => panic!("unknown fuzz focus {other}"),
    };
    let prefix = format!("{}:", focus.to_uppercase());
    all.into_iter().filter(|v| v.starts_with(&prefix)).collect()
}
