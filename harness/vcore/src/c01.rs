//! C01 (encode -> parse round trip) and C03 (encoder output judged by the
//! independent reference decoder). Same G1 cases, different oracles.

use crate::common::*;
use ipp::prelude::*;
use ippref::{Model, Strictness};
use std::collections::HashSet;
use std::io::Cursor;
use std::sync::Arc;
use vkit::gen::{self, G1Cfg};
use vkit::json::{hex_short, J};
use vkit::mirror;
use vkit::out::Report;
use vkit::rng::{hash64, Rng};
use vkit::src::Plan;
use vkit::util::{catch, panic_site, par, threads, Args};

pub fn g1_case(shapes: &[Model], seed: u64, idx: u64, cfg: &G1Cfg, big_every: u64) -> Model {
    if (idx as usize) < shapes.len() {
        return shapes[idx as usize].clone();
    }
    let mut rng = Rng::fork(seed, idx);
    let mut c = cfg.clone();
    c.big = big_every > 0 && idx % big_every == 0;
    gen::gen_model(&mut rng, &c)
}

fn note_traits(rep: &mut Report, m: &Model, bytes_hash: u64) {
    let t = gen::traits(m);
    if t.nontrivial() {
        rep.nontrivial(bytes_hash);
    }
    for g in &m.groups {
        for v in g.attrs.values() {
            gen::visit_kinds(v, &mut |k| {
                rep.seen("kinds", ippref::KIND_NAMES[k]);
            });
        }
        for (k, _) in &g.attrs {
            if [1usize, 2, 255, 256, 32767, 65535].contains(&k.len()) {
                rep.seen("name_boundary_lengths", k.len().to_string());
            }
        }
    }
    rep.max("max_depth", t.depth as i64);
    rep.max("max_groups", t.groups as i64);
    rep.max("max_payload", t.payload as i64);
    if t.mixed_set {
        rep.count("with_mixed_set", 1);
    }
    if t.multi_member {
        rep.count("with_multi_valued_member", 1);
    }
    if t.boundary {
        rep.count("with_boundary_length", 1);
    }
    if t.payload > 0 {
        rep.count("with_payload", 1);
    }
    rep.seen("group_count", t.groups.to_string());
    let tags: Vec<u8> = m.groups.iter().map(|g| g.tag).collect();
    if tags.iter().skip(1).any(|&t| t == 1) {
        rep.count("with_repeated_operation_group", 1);
    }
    if m.groups.iter().any(|g| g.attrs.is_empty()) {
        rep.count("with_empty_group", 1);
    }
}

fn classify_mismatch(d: &str) -> &'static str {
    if d.starts_with("header") {
        "header"
    } else if d.starts_with("group sequence") {
        "group-sequence"
    } else if d.starts_with("payload") {
        "payload"
    } else if d.contains("names differ") {
        "attribute-names"
    } else {
        "value"
    }
}

pub fn run_c01(args: &Args, tier: &str, seed: u64) -> Report {
    let shapes = Arc::new(gen::shapes());
    let n: u64 = args.u64("--cases", tier_pick(tier, 20_000, 1_500_000));
    let only = args.get("--only").and_then(|s| s.parse::<u64>().ok());
    let total = shapes.len() as u64 + n;
    let nthreads = if only.is_some() { 1 } else { threads() };
    let cfg = G1Cfg::default();
    let big_every = tier_pick(tier, 97, 53);
    let reports = par(nthreads, |shard| {
        let mut rep = Report::new("C01", tier, seed);
        let mut idx = shard as u64;
        while idx < total {
            if let Some(o) = only {
                if idx != o {
                    idx += nthreads as u64;
                    continue;
                }
            }
            let m = g1_case(&shapes, seed, idx, &cfg, big_every);
            c01_case(&mut rep, &m, seed, idx);
            idx += nthreads as u64;
        }
        rep
    });
    let mut rep = Report::new("C01", tier, seed);
    for r in reports {
        rep.merge(r);
    }
    rep.rule = "G1: value-model messages (deterministic prefix of hand-enumerated shapes, then seeded random; any header, first group operation, 0..k further groups of any kind incl. repeated/empty, unique UTF-8 names, all 22 kinds, sets >=2 homogeneous/mixed, collections nested up to 6 and chains up to 200, boundary lengths, payloads). Each case: to_bytes()+payload -> IppParser; into_read() -> IppParser; every 4th also AsyncIppParser; every 3rd also re-serialised after the header (header_mut) resp. an attribute (attributes_mut().add) was changed following a first to_bytes() (serialisation must not depend on the object's history). Oracle: structural equality with the generator's own mirror tree (one-element set == element), payload byte equality. evaluations = parser runs compared. Non-trivial = has a mixed set, a multi-valued collection member, nesting >= 2, a boundary length, >= 3 groups or a payload; distinct = by hash of the encoded bytes.".into();
    if only.is_none() {
        let kinds = rep.sets.get("kinds").map(|s| s.len()).unwrap_or(0);
        rep.require(kinds == 22, &format!("all 22 value kinds exercised (saw {kinds})"));
        rep.require(rep.counters.get("with_mixed_set").copied().unwrap_or(0) > 100, "mixed sets exercised");
        rep.require(rep.counters.get("with_multi_valued_member").copied().unwrap_or(0) > 100, "multi-valued members exercised");
        rep.require(rep.counters.get("with_repeated_operation_group").copied().unwrap_or(0) > 10, "repeated operation groups exercised");
    }
    rep.assumptions.push("messages are built through the public API (groups_mut / attributes_mut), domain restricted as stated in the property's quantifier (DateTime.utc_dir one octet; Other.tag among value tags without a kind of their own)".into());
    rep
}

pub(crate) fn c01_case(rep: &mut Report, m: &Model, seed: u64, idx: u64) {
    let expected = m.clone().normalize();
    let replay = vec!["c01".to_string(), "--seed".into(), seed.to_string(), "--only".into(), idx.to_string()];
    // path A: to_bytes + payload -> blocking parser
    let enc = catch(|| {
        let r = mirror::to_ipp(m);
        let mut b = r.to_bytes().to_vec();
        b.extend_from_slice(&m.data);
        b
    });
    let bytes = match enc {
        Ok(b) => b,
        Err(p) => {
            rep.eval();
            rep.violation(format!("C01:encode-panic:{}", panic_site(&p)), format!("case {idx}: {} : {p}", model_summary(m)), replay);
            return;
        }
    };
    let h = hash64(&bytes);
    note_traits(rep, m, h);
    if idx % 997 == 0 || rep.samples.is_empty() {
        rep.sample(J::obj().with("case", idx).with("summary", model_summary(m)).with("encoded_hex", hex_short(&bytes, 160)));
    }
    let data = Arc::new(bytes);
    let check = |rep: &mut Report, path: &str, out: Outcome| {
        rep.eval();
        rep.count(&format!("runs_{path}"), 1);
        match out {
            Outcome::Ok(got) => {
                let got = got.normalize();
                if let Some(d) = mirror::diff(&expected, &got) {
                    rep.violation(
                        format!("C01:mismatch:{}", classify_mismatch(&d)),
                        format!("case {idx} path {path}: {} : expected vs parsed: {d}; encoded={}", model_summary(m), hex_short(&data, 400)),
                        replay.clone(),
                    );
                }
            }
            Outcome::Panic(p) => rep.violation(
                format!("C01:parse-panic:{}", panic_site(&p)),
                format!("case {idx} path {path}: {} : parser panicked on the library's own output: {p}; encoded={}", model_summary(m), hex_short(&data, 400)),
                replay.clone(),
            ),
            other => rep.violation(
                format!("C01:parse-{}", other.class()),
                format!("case {idx} path {path}: {} : parser rejected the library's own output: {}; encoded={}", model_summary(m), other.short(), hex_short(&data, 400)),
                replay.clone(),
            ),
        }
    };
    let (o, _) = sync_parse(&data, Plan::full());
    check(rep, "to_bytes", o);
    // path B: into_read() (header cursor chained with a payload) -> blocking parser
    let o = catch(|| {
        let mut r = mirror::to_ipp(m);
        if !m.data.is_empty() {
            *r.payload_mut() = IppPayload::new(Cursor::new(m.data.clone()));
        }
        let rd = r.into_read();
        match ipp::parser::IppParser::new(ipp::reader::IppReader::new(rd)).parse() {
            Ok(mut resp) => {
                let mut mm = mirror::from_ipp_head(resp.header(), resp.attributes());
                let mut buf = vec![];
                match read_all_sync(resp.payload_mut(), &mut buf) {
                    Ok(()) => {
                        mm.data = buf;
                        Outcome::Ok(Box::new(mm))
                    }
                    Err(k) => Outcome::PayloadErr(k),
                }
            }
            Err(e) => Outcome::Err(errk(&e)),
        }
    })
    .unwrap_or_else(Outcome::Panic);
    check(rep, "into_read", o);
    if idx % 4 == 0 {
        let (o, _, _) = async_parse(&data, Plan::full());
        check(rep, "async", o);
    }
    // path E: the message built through IppAttributes::add alone (shuffled, with replaced decoys), when additions can produce it
    if idx % 2 == 1 && mirror::addable(m) {
        match catch(|| {
            let mut b = if idx % 4 == 3 { mirror::to_ipp_mixed(m, seed ^ idx) } else { mirror::to_ipp_via_add(m, seed ^ idx) }.to_bytes().to_vec();
            b.extend_from_slice(&m.data);
            b
        }) {
            Ok(b) => {
                rep.count("runs_built-by-additions", 1);
                let (o, _) = sync_parse(&Arc::new(b), Plan::full());
                check(rep, "built-by-additions", o);
            }
            Err(p) => rep.violation(format!("C01:encode-panic:{}", panic_site(&p)), format!("case {idx} (built by additions): {p}"), replay.clone()),
        }
    }
    // path F: a clone of a message's attribute list is changed; each of the two objects must encode its own content
    if idx % 5 == 2 {
        if let Some((tag, name)) = m.groups.iter().enumerate().filter(|(i, g)| m.groups[..*i].iter().all(|h| h.tag != g.tag)).filter_map(|(_, g)| g.attrs.keys().next().map(|k| (g.tag, k.clone()))).last() {
            let o = catch(|| {
                let r1 = mirror::to_ipp(m);
                let warm = r1.to_bytes();
                std::hint::black_box(warm.len());
                let mut r2 = IppRequestResponse::new_response(IppVersion(m.version), ipp::model::StatusCode::SuccessfulOk, m.id);
                r2.header_mut().operation_or_status = m.code;
                *r2.attributes_mut() = r1.attributes().clone();
                r2.attributes_mut().add(mirror::delim(tag), IppAttribute::new(&name, ipp::value::IppValue::Integer(31337)));
                let b2 = r2.to_bytes().to_vec();
                let b1 = r1.to_bytes().to_vec();
                (b1, b2)
            });
            match o {
                Ok((b1, b2)) => {
                    rep.count("runs_clone-then-modify", 1);
                    let mut expect2 = m.clone();
                    expect2.data.clear();
                    let gi = expect2.groups.iter().position(|g| g.tag == tag).unwrap();
                    expect2.groups[gi].attrs.insert(name.clone(), ippref::MVal::Integer(31337));
                    let mut expect1 = m.clone();
                    expect1.data.clear();
                    for (what, b, want) in [("original after its clone was changed", b1, expect1.normalize()), ("changed clone", b2, expect2.normalize())] {
                        rep.eval();
                        let (o, _) = sync_parse(&Arc::new(b), Plan::full());
                        match o {
                            Outcome::Ok(got) => {
                                if let Some(d) = mirror::diff(&want, &got.normalize()) {
                                    rep.violation("C01:mismatch:clone-then-modify", format!("case {idx}: {what}: {d}"), replay.clone());
                                }
                            }
                            other => rep.violation(format!("C01:parse-{}", other.class()), format!("case {idx} path clone-then-modify ({what}): {}", other.short()), replay.clone()),
                        }
                    }
                }
                Err(p) => rep.violation(format!("C01:encode-panic:{}", panic_site(&p)), format!("case {idx} (clone then modify): {p}"), replay.clone()),
            }
        }
    }
    // path C/D: serialisation must not depend on the object's history: serialise once, then change the header
    // (header_mut) or the attributes (attributes_mut) to the target content, and serialise again
    if idx % 3 == 0 {
        let o = catch(|| {
            let mut first = m.clone();
            first.version ^= 0x0301;
            first.code = first.code.wrapping_add(7);
            first.id = first.id.wrapping_add(1000);
            let mut r = mirror::to_ipp(&first);
            let stale = r.to_bytes();
            std::hint::black_box(stale.len());
            let h = r.header_mut();
            h.version = IppVersion(m.version);
            h.operation_or_status = m.code;
            h.request_id = m.id;
            let mut b = r.to_bytes().to_vec();
            b.extend_from_slice(&m.data);
            b
        });
        match o {
            Ok(b) => {
                let (o, _) = sync_parse(&Arc::new(b), Plan::full());
                check(rep, "reserialise-after-header_mut", o);
            }
            Err(p) => rep.violation(format!("C01:encode-panic:{}", panic_site(&p)), format!("case {idx}: {p}"), replay.clone()),
        }
        if let Some((tag, (name, val))) = m.groups.iter().rev().find_map(|g| g.attrs.iter().next().map(|a| (g.tag, a))) {
            let o = catch(|| {
                // same message but with another value under that name in the first group of that kind; add() then replaces it
                let mut first = m.clone();
                let gi = first.groups.iter().position(|g| g.tag == tag).unwrap();
                let target = first.groups[gi].attrs.get(name).cloned();
                first.groups[gi].attrs.insert(name.clone(), ippref::MVal::Integer(424242));
                let mut r = mirror::to_ipp(&first);
                let stale = r.to_bytes();
                std::hint::black_box(stale.len());
                let newval = target.unwrap_or_else(|| val.clone());
                r.attributes_mut().add(mirror::delim(tag), IppAttribute::new(name, mirror::to_ipp_value(&newval)));
                let mut expect = first.clone();
                expect.groups[gi].attrs.insert(name.clone(), newval);
                let mut b = r.to_bytes().to_vec();
                b.extend_from_slice(&m.data);
                (b, expect.normalize())
            });
            match o {
                Ok((b, expect)) => {
                    rep.eval();
                    rep.count("runs_reserialise-after-add", 1);
                    let (o, _) = sync_parse(&Arc::new(b), Plan::full());
                    match o {
                        Outcome::Ok(got) => {
                            if let Some(d) = mirror::diff(&expect, &got.normalize()) {
                                rep.violation("C01:mismatch:after-add", format!("case {idx}: serialise, add({tag},{name:?}), serialise again: {d}"), replay.clone());
                            }
                        }
                        other => rep.violation(format!("C01:parse-{}", other.class()), format!("case {idx} path reserialise-after-add: {}", other.short()), replay.clone()),
                    }
                }
                Err(p) => rep.violation(format!("C01:encode-panic:{}", panic_site(&p)), format!("case {idx}: {p}"), replay.clone()),
            }
        }
    }
}

// ------------------------------------------------------------------ C03

pub fn run_c03(args: &Args, tier: &str, seed: u64) -> Report {
    let shapes: Arc<Vec<Model>> = Arc::new(gen::shapes().into_iter().filter(wellformed_domain).collect());
    let n: u64 = args.u64("--cases", tier_pick(tier, 12_000, 400_000));
    let trials: usize = args.u64("--trials", tier_pick(tier, 8, 48)) as usize;
    let only = args.get("--only").and_then(|s| s.parse::<u64>().ok());
    let total = shapes.len() as u64 + n;
    let nthreads = if only.is_some() { 1 } else { threads() };
    let cfg = G1Cfg { oob_nonempty: false, ..G1Cfg::default() };
    let big_every = tier_pick(tier, 211, 101);
    let reports = par(nthreads, |shard| {
        let mut rep = Report::new("C03", tier, seed);
        let mut idx = shard as u64;
        while idx < total {
            if only.map(|o| o != idx).unwrap_or(false) {
                idx += nthreads as u64;
                continue;
            }
            let m = g1_case(&shapes, seed ^ 0xC03, idx, &cfg, big_every);
            // large cases get fewer trials
            let t = if m.groups.iter().any(|g| g.attrs.iter().any(|(k, _)| k.len() > 30000)) || ref_bytes(&m).len() > 50_000 { trials.min(3) } else { trials };
            c03_case(&mut rep, &m, seed, idx, t);
            idx += nthreads as u64;
        }
        rep
    });
    let mut rep = Report::new("C03", tier, seed);
    for r in reports {
        rep.merge(r);
    }
    rep.rule = "G1 value-model messages (as C01, out-of-band tags 0x10/0x12 with empty bodies so that the expected output is RFC-well-formed) x T fresh library instances per message (fresh randomly keyed maps). Oracle per instance: (1) reference strict RFC 8010 decoder accepts to_bytes() (exact lengths, registered body widths, separators = own tag + empty name, collection bracketing, unique names, exactly one end tag), operation group first; (2) decoded content == generator mirror; (3) reference encoder, given the observed attribute/member order, reproduces the bytes exactly. evaluations = instances judged; distinct by hash of encoded bytes; non-trivial as in C01.".into();
    if only.is_none() {
        let elig = rep.counters.get("cases_with_3plus_attr_group").copied().unwrap_or(0);
        let multi = rep.counters.get("cases_with_3plus_attr_group_multiple_orders").copied().unwrap_or(0);
        let mem = rep.counters.get("cases_with_3plus_attr_group_multiple_in_memory_orders").copied().unwrap_or(0);
        // diversity of iteration orders is observed and reported, not demanded: a library whose containers are ordered, or whose
        // encoder sorts, legitimately shows one order only (and then satisfies "however the maps iterate" trivially)
        rep.require(elig > 50, &format!("enough cases with a group of >= 3 attributes ({elig})"));
        rep.extra.insert("iteration_order_diversity".into(), J::Str(format!("{mem}/{elig} eligible cases saw more than one in-memory iteration order across instances; {multi}/{elig} saw more than one attribute order on the wire")));
        let kinds = rep.sets.get("kinds").map(|s| s.len()).unwrap_or(0);
        rep.require(kinds == 22, &format!("all 22 value kinds exercised (saw {kinds})"));
    }
    rep.assumptions.push("reference codec written from RFC 8010 only and anchored to transcribed RFC example messages at start-up".into());
    rep
}

/// C03 domain: as C01 but the expected wire form must itself be well-formed (out-of-band bodies empty)
fn wellformed_domain(m: &Model) -> bool {
    fn ok(v: &ippref::MVal) -> bool {
        match v {
            ippref::MVal::Other { tag, data } => !((*tag == 0x10 || *tag == 0x12) && !data.is_empty()),
            ippref::MVal::Set(vs) => vs.iter().all(ok),
            ippref::MVal::Coll(c) => c.values().all(ok),
            _ => true,
        }
    }
    m.groups.iter().all(|g| g.attrs.values().all(ok))
}

pub(crate) fn c03_case(rep: &mut Report, m: &Model, seed: u64, idx: u64, trials: usize) {
    let expected = m.clone().normalize();
    let replay = vec!["c03".to_string(), "--seed".into(), seed.to_string(), "--only".into(), idx.to_string()];
    let mut orders: HashSet<u64> = HashSet::new();
    let mut mem_orders: HashSet<u64> = HashSet::new();
    let eligible = m.groups.iter().any(|g| g.attrs.len() >= 3);
    let mut noted = false;
    for t in 0..trials {
        rep.eval();
        // every other instance of a message that additions alone can produce is built through IppAttributes::add
        // (shuffled order, some attributes first added with another value and replaced later), the rest by filling the maps
        let via_add = t % 2 == 1 && mirror::addable(m);
        if via_add {
            rep.count("instances_built_by_additions", 1);
        }
        let enc = catch(|| {
            // last instance: a clone of ANOTHER message's attribute list (one value differs, already encoded once), brought to
            // this message's content by one add(): the clone must encode its own content, not its sibling's
            // (an attribute of the first group of its kind: that is where add() puts a value)
            let sibling = if t + 1 == trials {
                m.groups.iter().enumerate().filter(|(i, g)| m.groups[..*i].iter().all(|h| h.tag != g.tag)).find_map(|(_, g)| g.attrs.iter().next().map(|(k, v)| (g.tag, k.clone(), v.clone())))
            } else {
                None
            };
            let r = if let Some((tag, name, val)) = sibling {
                let mut other = m.clone();
                let gi = other.groups.iter().position(|g| g.tag == tag).unwrap();
                let target = other.groups[gi].attrs.get(&name).cloned().unwrap_or(val);
                other.groups[gi].attrs.insert(name.clone(), ippref::MVal::Integer(-424242));
                let r0 = mirror::to_ipp(&other);
                std::hint::black_box(r0.to_bytes().len());
                let mut r = IppRequestResponse::new_response(IppVersion(m.version), ipp::model::StatusCode::SuccessfulOk, m.id);
                r.header_mut().operation_or_status = m.code;
                *r.attributes_mut() = r0.attributes().clone();
                r.attributes_mut().add(mirror::delim(tag), IppAttribute::new(&name, mirror::to_ipp_value(&target)));
                std::hint::black_box(r0.to_bytes().len());
                r
            } else if via_add && t % 4 == 3 {
                mirror::to_ipp_mixed(m, seed ^ idx.wrapping_mul(31) ^ t as u64)
            } else if via_add {
                mirror::to_ipp_via_add(m, seed ^ idx.wrapping_mul(31) ^ t as u64)
            } else {
                mirror::to_ipp(m)
            };
            // the iteration order the in-memory maps happen to have in this instance (the "schedule" of this property)
            let mem: Vec<u8> = r.attributes().groups().iter().flat_map(|g| g.attributes().keys().flat_map(|k| k.bytes().chain([0u8])).chain([1u8])).collect();
            (r.to_bytes().to_vec(), hash64(&mem))
        });
        let enc = enc.map(|(b, h)| {
            mem_orders.insert(h);
            b
        });
        let bytes = match enc {
            Ok(b) => b,
            Err(p) => {
                rep.violation(format!("C03:encode-panic:{}", panic_site(&p)), format!("case {idx}: {} : {p}", model_summary(m)), replay.clone());
                return;
            }
        };
        if !noted {
            note_traits(rep, m, hash64(&bytes));
            noted = true;
            if idx % 997 == 0 || rep.samples.is_empty() {
                rep.sample(J::obj().with("case", idx).with("summary", model_summary(m)).with("encoded_hex", hex_short(&bytes, 160)));
            }
        }
        let w = match ippref::decode_strict(&bytes, &Strictness::full()) {
            Ok(w) => w,
            Err(e) => {
                let kind = format!("{e:?}");
                let kind = kind.split(|c| c == '(' || c == ' ' || c == '{').next().unwrap_or("").to_string();
                rep.violation(
                    format!("C03:malformed:{kind}"),
                    format!("case {idx} trial {t}: {} : reference decoder rejects the encoder output: {e:?}; bytes={}", model_summary(m), hex_short(&bytes, 400)),
                    replay.clone(),
                );
                return;
            }
        };
        if !w.data.is_empty() {
            rep.violation("C03:bytes-after-end-tag", format!("case {idx}: {} bytes follow the end tag in to_bytes()", w.data.len()), replay.clone());
            return;
        }
        if w.groups.first().map(|g| g.tag) != Some(1) {
            rep.violation("C03:first-group-not-operation", format!("case {idx}: first group tag {:?}", w.groups.first().map(|g| g.tag)), replay.clone());
            return;
        }
        let got = ippref::interp(&w).normalize();
        let mut exp = expected.clone();
        exp.data.clear();
        if let Some(d) = mirror::diff(&exp, &got) {
            rep.violation(
                format!("C03:content:{}", classify_mismatch(&d)),
                format!("case {idx} trial {t}: {} : encoded vs independently decoded: {d}; bytes={}", model_summary(m), hex_short(&bytes, 400)),
                replay.clone(),
            );
            return;
        }
        let reference = ippref::encode_head(&ippref::model_to_wire_like(&exp, Some(&w)));
        if reference != bytes {
            let p = first_diff(&reference, &bytes);
            rep.violation(
                "C03:bytes-differ-from-reference-encoding",
                format!("case {idx} trial {t}: {} : first difference at offset {p}: reference {} vs library {}", model_summary(m), hex_short(&reference[p.saturating_sub(8)..], 64), hex_short(&bytes[p.saturating_sub(8)..], 64)),
                replay.clone(),
            );
            return;
        }
        let order: Vec<u8> = w.groups.iter().flat_map(|g| g.attrs.iter().flat_map(|a| a.name.iter().copied().chain([0u8]))).collect();
        orders.insert(hash64(&order));
    }
    rep.count("distinct_attribute_orders", orders.len() as i64);
    if eligible {
        rep.count("cases_with_3plus_attr_group", 1);
        if orders.len() > 1 {
            rep.count("cases_with_3plus_attr_group_multiple_orders", 1);
        }
        if mem_orders.len() > 1 {
            rep.count("cases_with_3plus_attr_group_multiple_in_memory_orders", 1);
        }
    }
}
