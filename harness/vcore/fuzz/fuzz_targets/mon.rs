#![no_main]
//! Coverage-guided layer: libFuzzer mutates the bytes, which drive the harness generators (or are the hostile input
//! itself); the same per-case monitors as the native checks judge each run. VERIF_FOCUS selects the property.
use libfuzzer_sys::fuzz_target;
use std::sync::OnceLock;

static FOCUS: OnceLock<String> = OnceLock::new();

fuzz_target!(|data: &[u8]| {
    let focus = FOCUS.get_or_init(|| {
        vcore::fuzz::init();
        std::env::var("VERIF_FOCUS").unwrap_or_else(|_| "c01".to_string())
    });
    let v = vcore::fuzz::run(focus, data);
    if !v.is_empty() {
        eprintln!("VERIF-FUZZ-VIOLATION {}", v[0].replace('\n', " "));
        std::process::abort();
    }
});
