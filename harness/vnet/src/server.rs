//! Loopback HTTP/1.1 (and HTTPS via rustls) peer with a scripted response plan and an event log.
//! Raw std::net + threads; independent of the HTTP stacks the clients use.

use std::collections::HashMap;
use std::io::{self, BufRead, BufReader, Read, Write};
use std::net::{TcpListener, TcpStream};
use std::sync::atomic::{AtomicBool, AtomicU64, Ordering::SeqCst};
use std::sync::{Arc, Mutex};
use std::time::{Duration, Instant};

/// how far into a response the scripted write fragmentation is applied
pub const FRAG_SPAN: usize = 256 * 1024;

#[derive(Clone, Debug)]
pub struct Req {
    pub conn: u64,
    pub method: String,
    pub target: String,
    pub version: String,
    pub headers: Vec<(String, String)>,
    pub body: Vec<u8>,
    pub chunked: bool,
    pub body_complete: bool,
}

impl Req {
    pub fn header_all(&self, name: &str) -> Vec<&str> {
        self.headers.iter().filter(|(k, _)| k.eq_ignore_ascii_case(name)).map(|(_, v)| v.as_str()).collect()
    }
    /// case id from a target "/case/<id>[/...][?...]"
    pub fn case_id(&self) -> Option<String> {
        let p = self.target.split('?').next().unwrap_or("");
        let mut it = p.split('/');
        it.next();
        if it.next() == Some("case") {
            it.next().map(|s| s.to_string())
        } else {
            None
        }
    }
}

#[derive(Clone, Debug, PartialEq)]
pub enum Framing {
    ContentLength,
    Chunked,
    Close,
    /// Content-Length framing, `Connection: close` announced, connection closed after the answer
    LengthThenClose,
}

#[derive(Clone, Debug)]
pub struct Plan {
    pub status: u16,
    pub framing: Framing,
    pub body: Vec<u8>,
    /// sizes of the socket writes (cycled); empty = one write
    pub frags: Vec<usize>,
    /// close the connection abruptly after this many BODY bytes
    pub cut_at: Option<usize>,
    /// do not answer at all for this long (or until the peer goes away)
    pub stall_before_ms: u64,
    /// (body offset, ms): pause inside the body
    pub stall_at: Option<(usize, u64)>,
    /// (piece bytes, pause ms): write the response in small pieces with a pause after each
    pub trickle: Option<(usize, u64)>,
    /// close the connection abruptly after this many bytes of the whole HTTP response (status line and headers included; 0 = say nothing)
    pub cut_wire_at: Option<usize>,
    pub content_type: String,
}

impl Plan {
    pub fn ok(body: Vec<u8>) -> Plan {
        Plan { status: 200, framing: Framing::ContentLength, body, frags: vec![], cut_at: None, stall_before_ms: 0, stall_at: None, trickle: None, cut_wire_at: None, content_type: "application/ipp".into() }
    }
}

#[derive(Clone, Debug)]
pub enum Event {
    ConnOpen { conn: u64, t_us: u64 },
    TlsFail { conn: u64, err: String, t_us: u64 },
    Request { req: Req, t_us: u64 },
    Response { conn: u64, case: Option<String>, status: u16, body_bytes_written: usize, complete: bool, t_us: u64 },
    ConnClose { conn: u64, app_bytes_in: u64, requests: u64, t_us: u64 },
}

pub type Handler = Arc<dyn Fn(&Req) -> Plan + Send + Sync>;

pub struct Server {
    pub port: u16,
    pub tls: bool,
    /// a TLS configuration that replaces the one given to start() for connections accepted from now on (a server restarted with
    /// another certificate: the sessions it handed out before are gone with the old configuration)
    tls_override: Mutex<Option<Arc<rustls::ServerConfig>>>,
    pub log: Arc<Mutex<Vec<Event>>>,
    handlers: Arc<Mutex<HashMap<String, Handler>>>,
    stop: Arc<AtomicBool>,
    t0: Instant,
}

struct Counted<S> {
    inner: S,
    n: Arc<AtomicU64>,
}
impl<S: Read> Read for Counted<S> {
    fn read(&mut self, buf: &mut [u8]) -> io::Result<usize> {
        let n = self.inner.read(buf)?;
        self.n.fetch_add(n as u64, SeqCst);
        Ok(n)
    }
}
impl<S: Write> Write for Counted<S> {
    fn write(&mut self, buf: &[u8]) -> io::Result<usize> {
        self.inner.write(buf)
    }
    fn flush(&mut self) -> io::Result<()> {
        self.inner.flush()
    }
}

impl Server {
    pub fn start(tls: Option<Arc<rustls::ServerConfig>>) -> io::Result<Arc<Server>> {
        let listener = TcpListener::bind("127.0.0.1:0")?;
        let port = listener.local_addr()?.port();
        let srv = Arc::new(Server {
            port,
            tls: tls.is_some(),
            tls_override: Mutex::new(None),
            log: Arc::new(Mutex::new(vec![])),
            handlers: Arc::new(Mutex::new(HashMap::new())),
            stop: Arc::new(AtomicBool::new(false)),
            t0: Instant::now(),
        });
        let s2 = srv.clone();
        std::thread::spawn(move || {
            let conn_ids = AtomicU64::new(0);
            for stream in listener.incoming() {
                if s2.stop.load(SeqCst) {
                    break;
                }
                let stream = match stream {
                    Ok(s) => s,
                    Err(_) => continue,
                };
                let conn = conn_ids.fetch_add(1, SeqCst);
                let s3 = s2.clone();
                let tls = s2.tls_override.lock().unwrap().clone().or_else(|| tls.clone());
                std::thread::spawn(move || s3.serve_conn(conn, stream, tls));
            }
        });
        Ok(srv)
    }

    pub fn replace_tls(&self, cfg: Arc<rustls::ServerConfig>) {
        *self.tls_override.lock().unwrap() = Some(cfg);
    }

    pub fn stop(&self) {
        self.stop.store(true, SeqCst);
        let _ = TcpStream::connect(("127.0.0.1", self.port));
    }

    pub fn on(&self, case: &str, h: Handler) {
        self.handlers.lock().unwrap().insert(case.to_string(), h);
    }
    pub fn off(&self, case: &str) {
        self.handlers.lock().unwrap().remove(case);
    }

    fn now(&self) -> u64 {
        self.t0.elapsed().as_micros() as u64
    }
    fn ev(&self, e: Event) {
        self.log.lock().unwrap().push(e);
    }

    pub fn events_for(&self, case: &str) -> Vec<Event> {
        self.log
            .lock()
            .unwrap()
            .iter()
            .filter(|e| match e {
                Event::Request { req, .. } => req.case_id().as_deref() == Some(case),
                Event::Response { case: c, .. } => c.as_deref() == Some(case),
                _ => false,
            })
            .cloned()
            .collect()
    }

    /// every request seen so far, whatever its target
    pub fn all_requests(&self) -> Vec<Req> {
        self.log.lock().unwrap().iter().filter_map(|e| if let Event::Request { req, .. } = e { Some(req.clone()) } else { None }).collect()
    }

    pub fn requests_for(&self, case: &str) -> Vec<Req> {
        self.events_for(case).into_iter().filter_map(|e| if let Event::Request { req, .. } = e { Some(req) } else { None }).collect()
    }

    fn serve_conn(self: Arc<Self>, conn: u64, stream: TcpStream, tls: Option<Arc<rustls::ServerConfig>>) {
        let _ = stream.set_nodelay(true);
        let _ = stream.set_read_timeout(Some(Duration::from_secs(30)));
        let _ = stream.set_write_timeout(Some(Duration::from_secs(30)));
        self.ev(Event::ConnOpen { conn, t_us: self.now() });
        let app_in = Arc::new(AtomicU64::new(0));
        let mut requests = 0u64;
        match tls {
            None => {
                let c = Counted { inner: stream, n: app_in.clone() };
                self.http_loop(conn, c, &mut requests);
            }
            Some(cfg) => {
                let sc = match rustls::ServerConnection::new(cfg) {
                    Ok(s) => s,
                    Err(e) => {
                        self.ev(Event::TlsFail { conn, err: format!("{e}"), t_us: self.now() });
                        return;
                    }
                };
                let mut tls_stream = rustls::StreamOwned::new(sc, stream);
                // drive the handshake explicitly so that a failure is logged as such
                while tls_stream.conn.is_handshaking() {
                    if let Err(e) = tls_stream.conn.complete_io(&mut tls_stream.sock) {
                        self.ev(Event::TlsFail { conn, err: format!("{e}"), t_us: self.now() });
                        self.ev(Event::ConnClose { conn, app_bytes_in: 0, requests: 0, t_us: self.now() });
                        return;
                    }
                }
                let c = Counted { inner: tls_stream, n: app_in.clone() };
                self.http_loop(conn, c, &mut requests);
            }
        }
        self.ev(Event::ConnClose { conn, app_bytes_in: app_in.load(SeqCst), requests, t_us: self.now() });
    }

    fn http_loop<S: Read + Write>(&self, conn: u64, stream: S, requests: &mut u64) {
        let mut rd = BufReader::with_capacity(64 * 1024, stream);
        loop {
            let req = match read_request(conn, &mut rd) {
                Ok(Some(r)) => r,
                _ => return,
            };
            *requests += 1;
            self.ev(Event::Request { req: req.clone(), t_us: self.now() });
            let case = req.case_id();
            // "*" is the fallback for targets that carry no (or an unknown) case id
            let handler = case.as_ref().and_then(|c| self.handlers.lock().unwrap().get(c).cloned()).or_else(|| self.handlers.lock().unwrap().get("*").cloned());
            let plan = match handler {
                Some(h) => h(&req),
                None => Plan { status: 404, ..Plan::ok(b"no such case".to_vec()) },
            };
            let (written, complete, keep) = self.respond(rd.get_mut(), &plan);
            self.ev(Event::Response { conn, case, status: plan.status, body_bytes_written: written, complete, t_us: self.now() });
            if !keep || !req.body_complete {
                return;
            }
        }
    }

    /// returns (body bytes written, completed, keep-alive)
    fn respond<S: Write>(&self, w: &mut S, plan: &Plan) -> (usize, bool, bool) {
        if plan.stall_before_ms > 0 {
            std::thread::sleep(Duration::from_millis(plan.stall_before_ms));
        }
        let reason = match plan.status {
            200 => "OK",
            400 => "Bad Request",
            401 => "Unauthorized",
            403 => "Forbidden",
            404 => "Not Found",
            426 => "Upgrade Required",
            500 => "Internal Server Error",
            503 => "Service Unavailable",
            _ => "Status",
        };
        let mut head = format!("HTTP/1.1 {} {}\r\nServer: verif-peer\r\nContent-Type: {}\r\n", plan.status, reason, plan.content_type);
        match plan.framing {
            Framing::ContentLength => head.push_str(&format!("Content-Length: {}\r\n", plan.body.len())),
            Framing::Chunked => head.push_str("Transfer-Encoding: chunked\r\n"),
            Framing::Close => head.push_str("Connection: close\r\n"),
            Framing::LengthThenClose => head.push_str(&format!("Content-Length: {}\r\nConnection: close\r\n", plan.body.len())),
        }
        head.push_str("\r\n");
        // wire image of the body, remembering which wire offset corresponds to which body offset
        let limit = plan.cut_at.unwrap_or(plan.body.len()).min(plan.body.len());
        let mut wire: Vec<u8> = head.into_bytes();
        let head_len = wire.len();
        let mut pause_wire_off: Option<usize> = None;
        match plan.framing {
            Framing::Chunked => {
                // chunk sizes follow frags (or one chunk); a cut leaves a chunk unfinished
                let mut off = 0usize;
                let mut i = 0usize;
                while off < plan.body.len() {
                    // the scripted fragmentation applies to the first FRAG_SPAN octets; the rest of a large body goes out in 64 KiB pieces
                    let k = if plan.frags.is_empty() { plan.body.len() } else if off < FRAG_SPAN { plan.frags[i % plan.frags.len()].max(1) } else { 65_536 }.min(plan.body.len() - off);
                    i += 1;
                    wire.extend_from_slice(format!("{k:x}\r\n").as_bytes());
                    if let Some((so, _)) = plan.stall_at {
                        if pause_wire_off.is_none() && so >= off && so < off + k {
                            pause_wire_off = Some(wire.len() + (so - off));
                        }
                    }
                    if off + k > limit {
                        wire.extend_from_slice(&plan.body[off..limit.max(off)]);
                        off = plan.body.len() + 1; // marks "cut"
                        break;
                    }
                    wire.extend_from_slice(&plan.body[off..off + k]);
                    wire.extend_from_slice(b"\r\n");
                    off += k;
                }
                if off == plan.body.len() && limit == plan.body.len() {
                    wire.extend_from_slice(b"0\r\n\r\n");
                }
            }
            _ => {
                if let Some((so, _)) = plan.stall_at {
                    if so < limit {
                        pause_wire_off = Some(wire.len() + so);
                    }
                }
                wire.extend_from_slice(&plan.body[..limit]);
            }
        }
        let mut cut = plan.cut_at.map(|c| c < plan.body.len()).unwrap_or(false);
        if let Some(c) = plan.cut_wire_at {
            if c < wire.len() {
                wire.truncate(c);
                cut = true;
            }
        }
        // write in fragments
        let mut pos = 0usize;
        let mut i = 0usize;
        let mut ok = true;
        while pos < wire.len() {
            let mut k = if let Some((piece, _)) = plan.trickle {
                piece.max(1).min(wire.len() - pos)
            } else if plan.frags.is_empty() {
                wire.len() - pos
            } else if pos < FRAG_SPAN {
                plan.frags[i % plan.frags.len()].max(1).min(wire.len() - pos)
            } else {
                65_536.min(wire.len() - pos)
            };
            i += 1;
            if let Some(p) = pause_wire_off {
                if pos < p && pos + k > p {
                    k = p - pos;
                }
                if pos == p {
                    let _ = w.flush();
                    std::thread::sleep(Duration::from_millis(plan.stall_at.map(|s| s.1).unwrap_or(0)));
                    pause_wire_off = None;
                    continue;
                }
            }
            if w.write_all(&wire[pos..pos + k]).is_err() {
                ok = false;
                break;
            }
            let _ = w.flush();
            pos += k;
            if let Some((_, pause)) = plan.trickle {
                std::thread::sleep(Duration::from_millis(pause));
            }
            if !plan.frags.is_empty() && i % 4 == 0 {
                std::thread::yield_now();
            }
        }
        let body_written = pos.saturating_sub(head_len).min(plan.body.len());
        let keep = ok && !cut && plan.framing != Framing::Close && plan.framing != Framing::LengthThenClose && plan.status < 400;
        (body_written, ok && !cut, keep)
    }
}

fn read_request<S: Read>(conn: u64, rd: &mut BufReader<S>) -> io::Result<Option<Req>> {
    let mut line = String::new();
    if rd.read_line(&mut line)? == 0 {
        return Ok(None);
    }
    let mut parts = line.trim_end().splitn(3, ' ');
    let method = parts.next().unwrap_or("").to_string();
    let target = parts.next().unwrap_or("").to_string();
    let version = parts.next().unwrap_or("").to_string();
    let mut headers = vec![];
    loop {
        let mut l = String::new();
        if rd.read_line(&mut l)? == 0 {
            return Ok(None);
        }
        let l = l.trim_end_matches(['\r', '\n']);
        if l.is_empty() {
            break;
        }
        if let Some((k, v)) = l.split_once(':') {
            headers.push((k.trim().to_string(), v.trim().to_string()));
        }
    }
    let get = |n: &str| headers.iter().find(|(k, _)| k.eq_ignore_ascii_case(n)).map(|(_, v)| v.clone());
    let mut body = vec![];
    let mut complete = true;
    let chunked = get("transfer-encoding").map(|v| v.to_ascii_lowercase().contains("chunked")).unwrap_or(false);
    if chunked {
        loop {
            let mut l = String::new();
            if rd.read_line(&mut l)? == 0 {
                complete = false;
                break;
            }
            let size = usize::from_str_radix(l.trim().split(';').next().unwrap_or("0"), 16).unwrap_or(0);
            if size == 0 {
                // trailers until empty line
                loop {
                    let mut t = String::new();
                    if rd.read_line(&mut t)? == 0 || t.trim_end().is_empty() {
                        break;
                    }
                }
                break;
            }
            let start = body.len();
            body.resize(start + size, 0);
            if rd.read_exact(&mut body[start..]).is_err() {
                complete = false;
                break;
            }
            let mut crlf = [0u8; 2];
            if rd.read_exact(&mut crlf).is_err() {
                complete = false;
                break;
            }
        }
    } else if let Some(cl) = get("content-length").and_then(|v| v.parse::<usize>().ok()) {
        body.resize(cl, 0);
        if rd.read_exact(&mut body).is_err() {
            complete = false;
        }
    }
    Ok(Some(Req { conn, method, target, version, headers, body, chunked, body_complete: complete }))
}

/// a certificate resolver whose certificate can be exchanged while the server keeps running (same port, same sessions cache)
#[derive(Debug)]
pub struct SwitchableCert(pub Mutex<Arc<rustls::sign::CertifiedKey>>);

impl rustls::server::ResolvesServerCert for SwitchableCert {
    fn resolve(&self, _hello: rustls::server::ClientHello<'_>) -> Option<Arc<rustls::sign::CertifiedKey>> {
        Some(self.0.lock().unwrap().clone())
    }
}

pub fn certified_key(cert_chain_pem: &str, key_pem: &str) -> Result<Arc<rustls::sign::CertifiedKey>, String> {
    use rustls::pki_types::pem::PemObject;
    use rustls::pki_types::{CertificateDer, PrivateKeyDer};
    let certs: Vec<CertificateDer<'static>> = CertificateDer::pem_file_iter(cert_chain_pem).map_err(|e| format!("{cert_chain_pem}: {e}"))?.filter_map(|c| c.ok()).collect();
    let key = PrivateKeyDer::from_pem_file(key_pem).map_err(|e| format!("{key_pem}: {e}"))?;
    let provider = rustls::crypto::ring::default_provider();
    let signing = provider.key_provider.load_private_key(key).map_err(|e| format!("{e}"))?;
    Ok(Arc::new(rustls::sign::CertifiedKey::new(certs, signing)))
}

/// TLS configuration (session resumption enabled: stateful cache + tickets as rustls does by default) serving whatever `switch` holds
pub fn tls_config_switchable(switch: Arc<SwitchableCert>) -> Result<Arc<rustls::ServerConfig>, String> {
    let provider = Arc::new(rustls::crypto::ring::default_provider());
    let cfg = rustls::ServerConfig::builder_with_provider(provider)
        .with_protocol_versions(&[&rustls::version::TLS12, &rustls::version::TLS13])
        .map_err(|e| format!("{e}"))?
        .with_no_client_auth()
        .with_cert_resolver(switch);
    Ok(Arc::new(cfg))
}

pub fn tls_config(cert_chain_pem: &str, key_pem: &str, versions: &[&'static rustls::SupportedProtocolVersion]) -> Result<Arc<rustls::ServerConfig>, String> {
    use rustls::pki_types::pem::PemObject;
    use rustls::pki_types::{CertificateDer, PrivateKeyDer};
    let certs: Vec<CertificateDer<'static>> = CertificateDer::pem_file_iter(cert_chain_pem).map_err(|e| format!("{cert_chain_pem}: {e}"))?.filter_map(|c| c.ok()).collect();
    let key = PrivateKeyDer::from_pem_file(key_pem).map_err(|e| format!("{key_pem}: {e}"))?;
    let provider = Arc::new(rustls::crypto::ring::default_provider());
    let cfg = rustls::ServerConfig::builder_with_provider(provider)
        .with_protocol_versions(versions)
        .map_err(|e| format!("{e}"))?
        .with_no_client_auth()
        .with_single_cert(certs, key)
        .map_err(|e| format!("{e}"))?;
    Ok(Arc::new(cfg))
}
