//! C11: HTTP clients put the exact request on the wire and return the exact response.

use crate::clients::*;
use crate::server::{Framing, Plan, Req, Server};
use ipp::prelude::*;
use ippref::{MGroup, MVal, Model, Strictness};
use std::sync::{Arc, Mutex};
use vkit::gen::{self, G1Cfg};
use vkit::json::{hex_short, J};
use vkit::mirror;
use vkit::out::Report;
use vkit::rng::{hash64, Rng};
use vkit::src::{Fallback, Plan as SrcPlan, Scripted, Step};
use vkit::util::Args;

pub fn b64(data: &[u8]) -> String {
    const T: &[u8; 64] = b"ABCDEFGHIJKLMNOPQRSTUVWXYZabcdefghijklmnopqrstuvwxyz0123456789+/";
    let mut s = String::new();
    for c in data.chunks(3) {
        let n = (c[0] as u32) << 16 | (*c.get(1).unwrap_or(&0) as u32) << 8 | *c.get(2).unwrap_or(&0) as u32;
        s.push(T[(n >> 18) as usize & 63] as char);
        s.push(T[(n >> 12) as usize & 63] as char);
        s.push(if c.len() > 1 { T[(n >> 6) as usize & 63] as char } else { '=' });
        s.push(if c.len() > 2 { T[n as usize & 63] as char } else { '=' });
    }
    s
}

#[derive(Clone, Copy, Debug, PartialEq)]
pub enum Kind {
    Blocking,
    Async,
}

#[derive(Clone, Debug)]
pub enum Expect {
    Response(Box<Model>),
    MustErr(String),
}

pub struct Ctx<'a> {
    pub srv: &'a Arc<Server>,
    pub rt: &'a tokio::runtime::Runtime,
    pub backend: &'a str,
    pub seed: u64,
}

fn small_cfg() -> G1Cfg {
    G1Cfg { oob_nonempty: false, max_depth: 3, max_groups: 3, max_attrs: 4, big: false }
}

fn gen_request(rng: &mut Rng, payload_len: usize) -> Model {
    let mut m = gen::gen_model(rng, &small_cfg());
    m.data = rng.bytes(payload_len);
    m
}

fn gen_response(rng: &mut Rng) -> Model {
    let mut m = gen::gen_model(rng, &small_cfg());
    m.code = *rng.pick(&[0u16, 0, 1, 0x0400, 0x040b, 0x0507]);
    m
}

/// request payload source: fragmented / interrupted / not-ready delivery
fn attach_payload(rng: &mut Rng, kind: Kind, req: &mut IppRequestResponse, payload: &[u8]) -> &'static str {
    if payload.is_empty() && rng.chance(1, 2) {
        return "none";
    }
    let data = Arc::new(payload.to_vec());
    let mut steps = vec![];
    for _ in 0..rng.range(0, 30) {
        steps.push(match rng.below(4) {
            0 => Step::Interrupted,
            1 => Step::Pending { deferred: false },
            2 => Step::Pending { deferred: true },
            _ => Step::Chunk(rng.range(1, 5000)),
        });
    }
    let fallback = match rng.below(3) {
        0 => Fallback::Full,
        1 => Fallback::Chunk(rng.range(1, 100)),
        _ => Fallback::Chunk(rng.range(100, 70_000)),
    };
    let plan = SrcPlan { steps, fallback, fail_at: None, steps_start: 0, fail_once: false, thread_wake: true };
    let (src, _) = Scripted::new(data, plan);
    if kind == Kind::Async && rng.chance(2, 3) {
        *req.payload_mut() = IppPayload::new_async(src);
        "async-reader"
    } else {
        *req.payload_mut() = IppPayload::new(src);
        "blocking-reader"
    }
}

pub struct CaseSpec {
    pub id: String,
    pub kind: Kind,
    pub scheme: &'static str,
    pub cfg: ClientCfg,
    pub request: Model,
    pub plan: Plan,
    pub expect: Expect,
    pub what: String,
}

pub struct CaseLog {
    pub spec: CaseSpec,
    pub uri: String,
    pub target: String,
    pub payload_source: &'static str,
    pub result: Sent,
    pub requests: Vec<Req>,
}

pub fn run_case(cx: &Ctx, rng: &mut Rng, mut spec: CaseSpec) -> CaseLog {
    let target = format!("/case/{}/printers/p%20{}?q={}&x=a%2Fb", spec.id, spec.id, spec.id);
    let uri = format!("{}://127.0.0.1:{}{}", spec.scheme, cx.srv.port, target);
    let plan = spec.plan.clone();
    cx.srv.on(&spec.id, Arc::new(move |_r: &Req| plan.clone()));
    let mut req = mirror::to_ipp(&spec.request);
    // every third exchange: the request is encoded once, then its header is changed through header_mut() before it is sent
    // (the POST body must carry the request as it is at send time)
    if hash64(spec.id.as_bytes()) % 3 == 0 {
        std::hint::black_box(req.to_bytes().len());
        let h = req.header_mut();
        h.request_id = h.request_id.wrapping_add(0x0101_0101);
        h.operation_or_status ^= 0x0001;
        spec.request.id = spec.request.id.wrapping_add(0x0101_0101);
        spec.request.code ^= 0x0001;
    }
    // the "no response head" cases without a payload use a genuinely empty payload (IppPayload::empty())
    let src = if spec.id.starts_with('h') && spec.request.data.is_empty() { "none" } else { attach_payload(rng, spec.kind, &mut req, &spec.request.data) };
    let result = match spec.kind {
        Kind::Blocking => send_blocking(&blocking_client(&uri, &spec.cfg), req),
        Kind::Async => send_async(cx.rt, &async_client(&uri, &spec.cfg), req),
    };
    // stalled server threads may still be sleeping; the request event is logged before the plan runs
    let requests = cx.srv.requests_for(&spec.id);
    cx.srv.off(&spec.id);
    CaseLog { spec, uri, target, payload_source: src, result, requests }
}

/// offline judgement of one case from the joined logs
pub fn judge(rep: &mut Report, port: u16, log: &CaseLog, replay: &[String]) {
    rep.eval();
    let s = &log.spec;
    let label = format!("case {} [{:?} client, {}] {}", s.id, s.kind, log.uri, s.what);
    let mut viol = |rep: &mut Report, sig: &str, why: String| {
        rep.violation(format!("C11:{sig}"), format!("{label}: {why}"), replay.to_vec());
    };
    // ---- what the peer saw
    if log.requests.len() != 1 {
        viol(rep, "request-count", format!("peer saw {} requests for this send, expected exactly 1 (methods {:?})", log.requests.len(), log.requests.iter().map(|r| r.method.clone()).collect::<Vec<_>>()));
        return;
    }
    let r = &log.requests[0];
    if r.method != "POST" {
        viol(rep, "method", format!("method {:?}", r.method));
    }
    if r.target != log.target {
        viol(rep, "target", format!("request target {:?}, expected {:?} (path and query preserved)", r.target, log.target));
    }
    let host = r.header_all("host");
    if host != vec![format!("127.0.0.1:{port}").as_str()] {
        viol(rep, "host-header", format!("Host {host:?}, expected 127.0.0.1:{port}"));
    }
    let ct = r.header_all("content-type");
    if ct.len() != 1 || !ct[0].eq_ignore_ascii_case("application/ipp") {
        viol(rep, "content-type", format!("Content-Type {ct:?}"));
    }
    for (k, v) in &s.cfg.headers {
        let got = r.header_all(k);
        if !got.contains(&v.as_str()) {
            viol(rep, "custom-header", format!("header {k}: {got:?}, expected {v:?}"));
        }
    }
    if let Some((u, p)) = &s.cfg.basic {
        let want = format!("Basic {}", b64(format!("{u}:{p}").as_bytes()));
        let got = r.header_all("authorization");
        if got != vec![want.as_str()] {
            viol(rep, "basic-auth", format!("Authorization {got:?}, expected {want:?}"));
        }
    } else if !r.header_all("authorization").is_empty() {
        viol(rep, "basic-auth", "Authorization sent although no credentials were configured".into());
    }
    if !r.body_complete {
        viol(rep, "body-incomplete", format!("request body ended prematurely after {} bytes", r.body.len()));
    } else {
        match ippref::decode_strict(&r.body, &Strictness::full()) {
            Ok(w) => {
                let got = ippref::interp(&w).normalize();
                let want = s.request.clone().normalize();
                if let Some(d) = mirror::diff(&want, &got) {
                    viol(rep, "body-differs", format!("request sent vs body received: {d}; body={}", hex_short(&r.body, 300)));
                }
            }
            Err(e) => viol(rep, "body-malformed", format!("body does not decode: {e:?}; body={}", hex_short(&r.body, 300))),
        }
    }
    rep.seen("request_framing_seen", if r.chunked { "chunked" } else { "content-length" });
    // ---- what the caller got
    match (&s.expect, &log.result) {
        (Expect::Response(want), Sent::Ok(got)) => {
            if let Some(d) = mirror::diff(want, got) {
                viol(rep, "response-differs", format!("scripted response vs returned: {d}"));
            } else {
                rep.nontrivial(hash64(format!("{}{:?}{:?}", s.what, s.kind, s.plan.framing).as_bytes()) ^ hash64(&r.body));
            }
        }
        (Expect::Response(_), other) => viol(rep, "response-lost", format!("send returned {} for a complete, successful exchange", other.short())),
        (Expect::MustErr(why), Sent::Ok(_)) => viol(rep, &format!("ok-instead-of-error:{}", why.split(' ').next().unwrap_or("")), format!("send returned Ok although {why}")),
        (Expect::MustErr(_), Sent::Panic(p)) => viol(rep, "panic", p.clone()),
        (Expect::MustErr(_), e) => rep.seen("error_classes", e.short().split('(').next().unwrap_or("").to_string() + "/" + e.short().split('(').nth(1).unwrap_or("")),
    }
}

fn rand_cfg(rng: &mut Rng) -> ClientCfg {
    let mut cfg = ClientCfg::default();
    for i in 0..rng.range(0, 3) {
        cfg.headers.push((format!("X-Verif-{i}"), format!("v{}-{}", i, rng.below(1000))));
    }
    if rng.chance(1, 6) {
        // edge cases RFC 7617 allows: empty user and/or empty password (still sent: "Basic Og==" for both empty)
        cfg.basic = Some(match rng.below(3) {
            0 => (String::new(), String::new()),
            1 => (String::new(), "pw".to_string()),
            _ => ("user".to_string(), String::new()),
        });
    } else if rng.chance(1, 2) {
        // arbitrary UTF-8 credentials; many of them have '+' or '/' in their base64 image
        let user = match rng.below(3) {
            0 => format!("user{}", rng.below(100)),
            1 => rng.pick(&["joe", "xyz", "aπ", "jörg", "a", ""]).to_string(),
            _ => {
                let n = rng.below(12) as usize;
                gen::utf8_exact(rng, n).replace(':', "_")
            }
        };
        let pw = match rng.below(3) {
            0 => rng.pick(&["secret", "p:w", "pä55", "", "p~ss", "p?ss", "¿qué", ">>>", "~~~?"]).to_string(),
            _ => {
                let n = rng.below(16) as usize;
                gen::utf8_exact(rng, n)
            }
        };
        cfg.basic = Some((user, pw));
    }
    cfg.timeout_ms = if rng.chance(1, 3) { Some(60_000) } else { None };
    cfg
}

fn frags(rng: &mut Rng) -> Vec<usize> {
    match rng.below(4) {
        0 => vec![],
        1 => vec![1],
        2 => (0..rng.range(1, 5)).map(|_| rng.range(1, 40)).collect(),
        _ => vec![rng.range(100, 5000)],
    }
}

pub fn run(args: &Args, tier: &str, seed: u64, backend: &str) -> Report {
    let mut rep = Report::new("C11", tier, seed);
    let thorough = tier == "thorough";
    let srv = Server::start(None).expect("server");
    let rt = runtime();
    let cx = Ctx { srv: &srv, rt: &rt, backend, seed };
    let only = args.get("--only").map(|s| s.to_string());
    let replay_for = |id: &str| vec!["c11".to_string(), "--seed".into(), seed.to_string(), "--only".into(), id.to_string()];
    let mut next_id = 0u64;
    let mut mk_id = |p: &str| {
        next_id += 1;
        format!("{p}{next_id}")
    };
    // every case is a pure function of (seed, index); cases are executed on a pool and judged offline afterwards
    let mut specs: Vec<(CaseSpec, u64)> = vec![];

    // ---- A: full exchanges over framings x fragmentations x configs x payload sizes
    let n_a = if thorough { 1500 } else { 160 };
    for i in 0..n_a {
        let id = mk_id("a");
        let mut rng = Rng::fork(seed ^ 0xC11A, i);
        let kind = if i % 2 == 0 { Kind::Blocking } else { Kind::Async };
        let plen = match rng.below(10) {
            0 => 0,
            1..=6 => rng.range(1, 5000),
            7 | 8 => rng.range(5000, 300_000),
            _ => {
                if thorough {
                    rng.range(1 << 20, 8 << 20)
                } else {
                    rng.range(300_000, 2 << 20)
                }
            }
        };
        let request = gen_request(&mut rng, plen);
        let mut resp = gen_response(&mut rng);
        resp.data = match if i % 16 == 5 || i % 16 == 10 { 3 } else { rng.below(4) } {
            0 => vec![],
            1 => vec![3],
            _ => {
                // some responses carry a document beyond 2^20 octets (thorough: beyond 2^24), both clients, all framings
                let n = if i % 16 == 5 || i % 16 == 10 {
                    if thorough && i % 128 == 10 { 17_000_000 } else { rng.range(1_100_000, 3_000_000) }
                } else {
                    rng.range(1, 100_000)
                };
                rng.bytes(n)
            }
        };
        let framing = [Framing::ContentLength, Framing::Chunked, Framing::Close][(i % 3) as usize].clone();
        let body = crate::ref_bytes(&resp);
        let plan = Plan { framing: framing.clone(), frags: frags(&mut rng), ..Plan::ok(body) };
        specs.push((
            CaseSpec {
                id,
                kind,
                scheme: if i % 4 < 2 { "http" } else { "ipp" },
                cfg: rand_cfg(&mut rng),
                request,
                plan,
                expect: Expect::Response(Box::new(resp.normalize())),
                what: format!("exchange: request payload {plen}B, response framing {framing:?}"),
            },
            seed ^ 0xA000 ^ i,
        ));
    }

    // ---- B: HTTP error statuses
    let statuses: Vec<u16> = if thorough { (400..=599).collect() } else { vec![400, 401, 403, 404, 405, 408, 411, 413, 426, 429, 451, 499, 500, 501, 502, 503, 504, 505, 511, 599] };
    for (i, st) in statuses.iter().enumerate() {
        for kind in [Kind::Blocking, Kind::Async] {
            let id = mk_id("s");
            let mut rng = Rng::fork(seed ^ 0xC11B, i as u64);
            // the body is a perfectly valid successful IPP response: only the HTTP status says "error"
            let resp = gen_response(&mut rng);
            let mut plan = Plan::ok(crate::ref_bytes(&resp));
            plan.status = *st;
            plan.framing = [Framing::ContentLength, Framing::Chunked, Framing::Close][i % 3].clone();
            specs.push((CaseSpec { id, kind, scheme: "http", cfg: ClientCfg::default(), request: gen_request(&mut rng, 10), plan, expect: Expect::MustErr(format!("http-status {st} was returned")), what: format!("HTTP status {st}") }, seed ^ 0xB000 ^ i as u64));
        }
    }

    // ---- C: connection cut at every offset inside header+attributes, under each framing
    {
        let mut rng = Rng::fork(seed ^ 0xC11C, 0);
        let mut resp = gen_response(&mut rng);
        while crate::ref_head(&resp).len() < 60 || crate::ref_head(&resp).len() > if thorough { 400 } else { 130 } {
            resp = gen_response(&mut rng);
        }
        resp.data = b"trailing-document-data".to_vec();
        let head_len = crate::ref_head(&resp).len();
        let body = crate::ref_bytes(&resp);
        for framing in [Framing::ContentLength, Framing::Chunked, Framing::Close] {
            for cut in 0..head_len {
                for kind in [Kind::Blocking, Kind::Async] {
                    let id = mk_id("c");
                    let plan = Plan { framing: framing.clone(), cut_at: Some(cut), frags: if cut % 2 == 0 { vec![] } else { vec![7] }, ..Plan::ok(body.clone()) };
                    specs.push((CaseSpec { id, kind, scheme: "http", cfg: ClientCfg::default(), request: gen_request(&mut rng, 0), plan, expect: Expect::MustErr(format!("cut: the connection was closed after {cut} of {head_len} header+attributes bytes ({framing:?})")), what: format!("cut at {cut}/{head_len} under {framing:?}") }, seed ^ 0xC000 ^ cut as u64));
                }
            }
        }
        rep.max("cut_head_len", head_len as i64);
    }

    // ---- D: stalled server vs request timeout (verdict: Err vs Ok, never elapsed time)
    for (i, inside) in [false, true, false, true].iter().enumerate() {
        let kind = if i < 2 { Kind::Blocking } else { Kind::Async };
        let id = mk_id("t");
        let mut rng = Rng::fork(seed ^ 0xC11D, i as u64);
        let resp = gen_response(&mut rng);
        let mut plan = Plan::ok(crate::ref_bytes(&resp));
        if *inside {
            plan.stall_at = Some((5, 6000));
        } else {
            plan.stall_before_ms = 6000;
        }
        let cfg = ClientCfg { timeout_ms: Some(500), ..ClientCfg::default() };
        specs.push((CaseSpec { id, kind, scheme: "http", cfg, request: gen_request(&mut rng, 100), plan, expect: Expect::MustErr(format!("timeout: the server stalled 6000 ms {} the response with request_timeout = 500 ms", if *inside { "inside" } else { "before" })), what: format!("stall {} response, timeout 500ms", if *inside { "inside" } else { "before" }) }, seed ^ 0xD000 ^ i as u64));
    }

    // ---- D3: failures BEFORE the HTTP response head is complete (nothing sent / cut inside the status line or headers / stall),
    //          with and without a request payload: still exactly one POST, and an error
    for (i, cutw) in [Some(0usize), Some(5), Some(12), Some(25), None].iter().enumerate() {
        for with_payload in [false, true] {
            for kind in [Kind::Blocking, Kind::Async] {
                let id = mk_id("h");
                let mut rng = Rng::fork(seed ^ 0xC11D3, (i * 4 + with_payload as usize * 2 + (kind == Kind::Async) as usize) as u64);
                let resp = gen_response(&mut rng);
                let mut plan = Plan::ok(crate::ref_bytes(&resp));
                let mut cfg = ClientCfg::default();
                let what = match cutw {
                    Some(c) => {
                        plan.cut_wire_at = Some(*c);
                        format!("connection closed after {c} bytes of the HTTP response head")
                    }
                    None => {
                        plan.stall_before_ms = 5000;
                        cfg.timeout_ms = Some(500);
                        "server silent for 5000 ms with request_timeout = 500 ms".to_string()
                    }
                };
                let mut request = gen_request(&mut rng, if with_payload { 200 } else { 0 });
                if !with_payload {
                    request.data.clear();
                }
                specs.push((CaseSpec { id, kind: *(&kind), scheme: "http", cfg, request, plan, expect: Expect::MustErr(format!("no-response: {what} ({} request payload)", if with_payload { "with" } else { "without" })), what: format!("{what}, {} payload", if with_payload { "with" } else { "no" }) }, seed ^ 0xD300 ^ i as u64));
            }
        }
    }

    // ---- D2: a server that is slow in total but never silent for as long as the timeout (trickle)
    for (i, kind) in [Kind::Blocking, Kind::Async].iter().enumerate() {
        let id = mk_id("t");
        let mut rng = Rng::fork(seed ^ 0xC11D2, i as u64);
        let mut resp = gen_response(&mut rng);
        resp.data = rng.bytes(600);
        let mut plan = Plan::ok(crate::ref_bytes(&resp));
        plan.trickle = Some((40, 200)); // 40-byte pieces every 200 ms: several seconds in total
        let cfg = ClientCfg { timeout_ms: Some(700), ..ClientCfg::default() };
        specs.push((CaseSpec { id, kind: *kind, scheme: "http", cfg, request: gen_request(&mut rng, 100), plan, expect: Expect::MustErr("timeout: the server trickled the response over several seconds (a piece every 200 ms) with request_timeout = 700 ms".into()), what: "trickled response, timeout 700ms".into() }, seed ^ 0xD200 ^ i as u64));
    }

    if let Some(o) = &only {
        specs.retain(|s| &s.0.id == o);
    }
    // ---- execute on a pool (each send builds its own HTTP/TLS client: ~100 ms of CPU per send)
    let queue = Mutex::new(specs.into_iter().collect::<std::collections::VecDeque<_>>());
    let logs: Mutex<Vec<CaseLog>> = Mutex::new(vec![]);
    std::thread::scope(|s| {
        let pool: usize = std::env::var("VERIF_NET_POOL").ok().and_then(|x| x.parse().ok()).unwrap_or(12);
        for _ in 0..pool {
            s.spawn(|| loop {
                let next = queue.lock().unwrap().pop_front();
                let (spec, rs) = match next {
                    Some(x) => x,
                    None => break,
                };
                let mut rng = Rng::new(rs);
                let t1 = std::time::Instant::now();
                let log = run_case(&cx, &mut rng, spec);
                if t1.elapsed().as_secs_f64() > 2.0 && std::env::var("VERIF_DEBUG").is_ok() {
                    eprintln!("[c11] slow case {} {:.1}s: {} src={}", log.spec.id, t1.elapsed().as_secs_f64(), log.spec.what, log.payload_source);
                }
                logs.lock().unwrap().push(log);
            });
        }
    });
    // ---- offline judgement over the joined logs
    let mut logs = logs.into_inner().unwrap();
    logs.sort_by_key(|l| (l.spec.id.chars().next().unwrap_or('z'), l.spec.id[1..].parse::<u64>().unwrap_or(0)));
    for log in &logs {
        match log.spec.id.chars().next() {
            Some('a') => {
                rep.seen("payload_sources", log.payload_source);
                rep.seen("response_framings", format!("{:?}", log.spec.plan.framing));
                rep.max("max_request_payload", log.spec.request.data.len() as i64);
                if rep.samples.len() < 3 && log.spec.request.data.len() > 100 {
                    let r = log.requests.first();
                    rep.sample(J::obj().with("case", log.spec.what.as_str()).with("uri", log.uri.as_str()).with("peer_saw", r.map(|r| format!("{} {} {:?} body={}B chunked={}", r.method, r.target, r.headers, r.body.len(), r.chunked)).unwrap_or_default()).with("returned", log.result.short()));
                }
            }
            Some('s') => rep.count("error_status_cases", 1),
            Some('c') => rep.count("cut_cases", 1),
            Some('t') => rep.count("timeout_cases", 1),
            Some('h') => rep.count("no_response_head_cases", 1),
            _ => {}
        }
        judge(&mut rep, srv.port, log, &replay_for(&log.spec.id));
    }

    // ---- E: concurrent sends through ONE client: exactly-once, no cross-talk
    if only.is_none() || only.as_deref() == Some("concurrent") {
        concurrent(&mut rep, &cx, tier, seed);
    }

    srv.stop();
    for note in take_uri_notes() {
        rep.violation("C11:client-holds-another-target", note, vec!["c11".to_string()]);
    }
    rep.extra.insert("tls_backend_of_this_build".into(), J::Str(backend.to_string()));
    rep.extra.insert("peer_events_logged".into(), J::Int(srv.log.lock().unwrap().len() as i64));
    rep.rule = "Live loopback peer (raw std::net HTTP/1.1 server with an event log) x both clients. (A) random exchanges: G1 requests with payloads 0 B..MiBs from fragmented / interrupted / not-ready blocking and async sources, random custom headers, Basic credentials, ipp:// and http:// targets with path+query, responses under content-length / chunked / close-delimited framing with write fragmentation; (B) HTTP statuses 4xx/5xx (quick: 20 registered ones, thorough: all 400..599) carrying a valid IPP body; (C) connection cut at EVERY offset inside the response's header+attributes under each framing; (D) connection closed or server silent before the HTTP response head is complete (with and without a request payload), server stalled before / inside the response, or trickling it in small pieces over several seconds, with request_timeout set; (E) 16 concurrent senders x 20 sends through one client. Offline checker over the joined client-call / peer-event logs: exactly one POST per send, exact target and Host, Content-Type, custom headers, Basic credentials, body decoding (reference decoder) to exactly the request + payload; returned response == scripted response incl. trailing data; error cases must be Err; concurrent calls matched to their own responses by unique request-id + marker. evaluations = sends judged.".into();
    if only.is_none() {
        rep.require(rep.sets.get("response_framings").map(|s| s.len()).unwrap_or(0) == 3, "all three response framings exercised");
        rep.require(rep.counters.get("cut_cases").copied().unwrap_or(0) >= 300, "cut offsets enumerated");
    }
    rep.assumptions.push("timeouts are judged on outcome only (Err vs Ok); a client that errs late passes".into());
    rep.assumptions.push("URI user-info credentials are not judged (only basic_auth on a target without user-info)".into());
    rep
}

fn concurrent(rep: &mut Report, cx: &Ctx, tier: &str, seed: u64) {
    let (threads, sends) = if tier == "thorough" { (16usize, 60usize) } else { (16, 20) };
    for kind in [Kind::Blocking, Kind::Async] {
        let id = format!("conc{}", if kind == Kind::Blocking { "b" } else { "a" });
        // the peer derives the response from the request: same request-id, marker attribute, payload reversed
        let seen: Arc<Mutex<Vec<u32>>> = Arc::new(Mutex::new(vec![]));
        let seen2 = seen.clone();
        cx.srv.on(
            &id,
            Arc::new(move |r: &Req| {
                let w = ippref::decode_strict(&r.body, &Strictness::full());
                match w {
                    Ok(w) => {
                        seen2.lock().unwrap().push(w.id);
                        let marker = ippref::interp(&w).groups.first().and_then(|g| g.attrs.get("marker").cloned()).unwrap_or(MVal::NoValue);
                        let mut attrs = std::collections::BTreeMap::new();
                        attrs.insert("attributes-charset".to_string(), MVal::Text { tag: 0x47, s: "utf-8".into() });
                        attrs.insert("echo".to_string(), marker);
                        let mut data = w.data.clone();
                        data.reverse();
                        let resp = Model { version: 0x0200, code: 0, id: w.id, groups: vec![MGroup { tag: 1, attrs }], data };
                        Plan { frags: vec![13], framing: if w.id % 2 == 0 { Framing::Chunked } else { Framing::ContentLength }, ..Plan::ok(crate::ref_bytes(&resp)) }
                    }
                    Err(_) => Plan { status: 400, ..Plan::ok(vec![]) },
                }
            }),
        );
        let uri = format!("http://127.0.0.1:{}/case/{}/shared", cx.srv.port, id);
        let results: Arc<Mutex<Vec<(u32, String, Vec<u8>, Sent)>>> = Arc::new(Mutex::new(vec![]));
        let mk_req = |t: usize, k: usize| -> (u32, String, Vec<u8>, IppRequestResponse) {
            let rid = (t * 1000 + k + 1) as u32;
            let marker = format!("m-{seed}-{t}-{k}");
            let mut attrs = std::collections::BTreeMap::new();
            attrs.insert("marker".to_string(), MVal::Text { tag: 0x44, s: marker.clone() });
            let mut r = Rng::fork(seed ^ 0xC11E, rid as u64);
            let plen = r.range(0, 20_000);
            let payload = r.bytes(plen);
            let m = Model { version: 0x0101, code: 2, id: rid, groups: vec![MGroup { tag: 1, attrs }], data: payload.clone() };
            let mut req = mirror::to_ipp(&m);
            *req.payload_mut() = IppPayload::new(std::io::Cursor::new(payload.clone()));
            (rid, marker, payload, req)
        };
        match kind {
            Kind::Blocking => {
                let client = Arc::new(blocking_client(&uri, &ClientCfg::default()));
                std::thread::scope(|s| {
                    for t in 0..threads {
                        let client = client.clone();
                        let results = results.clone();
                        let mk_req = &mk_req;
                        s.spawn(move || {
                            for k in 0..sends {
                                let (rid, marker, payload, req) = mk_req(t, k);
                                let r = send_blocking(&client, req);
                                results.lock().unwrap().push((rid, marker, payload, r));
                            }
                        });
                    }
                });
            }
            Kind::Async => {
                let client = Arc::new(async_client(&uri, &ClientCfg::default()));
                cx.rt.block_on(async {
                    let mut hs = vec![];
                    for t in 0..threads {
                        let client = client.clone();
                        let results = results.clone();
                        let reqs: Vec<_> = (0..sends).map(|k| mk_req(t, k)).collect();
                        hs.push(tokio::spawn(async move {
                            for (rid, marker, payload, req) in reqs {
                                let r = match client.send(req).await {
                                    Ok(mut resp) => {
                                        let mut m = mirror::from_ipp_head(resp.header(), resp.attributes());
                                        let mut data = vec![];
                                        match futures_util::io::AsyncReadExt::read_to_end(resp.payload_mut(), &mut data).await {
                                            Ok(_) => {
                                                m.data = data;
                                                Sent::Ok(Box::new(m))
                                            }
                                            Err(e) => Sent::PayloadErr(format!("{:?}", e.kind())),
                                        }
                                    }
                                    Err(e) => Sent::Err(err_class(&e)),
                                };
                                results.lock().unwrap().push((rid, marker, payload, r));
                            }
                        }));
                    }
                    for h in hs {
                        let _ = h.await;
                    }
                });
            }
        }
        cx.srv.off(&id);
        // offline matching call -> response
        let replay = vec!["c11".to_string(), "--seed".into(), seed.to_string(), "--only".into(), "concurrent".into()];
        let results = results.lock().unwrap();
        let mut seen = seen.lock().unwrap().clone();
        seen.sort();
        let mut expect_ids: Vec<u32> = results.iter().map(|r| r.0).collect();
        expect_ids.sort();
        if seen != expect_ids {
            let dup = seen.windows(2).filter(|w| w[0] == w[1]).count();
            rep.violation("C11:concurrent:exactly-once", format!("{kind:?} client: peer saw {} requests ({} duplicated ids) for {} sends", seen.len(), dup, expect_ids.len()), replay.clone());
        }
        for (rid, marker, payload, r) in results.iter() {
            rep.eval();
            rep.count("concurrent_sends", 1);
            match r {
                Sent::Ok(m) => {
                    let mut rev = payload.clone();
                    rev.reverse();
                    let echo = m.groups.first().and_then(|g| g.attrs.get("echo"));
                    if m.id != *rid || echo != Some(&MVal::Text { tag: 0x44, s: marker.clone() }) || m.data != rev {
                        rep.violation("C11:concurrent:cross-talk", format!("{kind:?} client: send with request-id {rid} / marker {marker} got a response with id {} echo {:?} data {}B (expected {}B)", m.id, echo, m.data.len(), rev.len()), replay.clone());
                    } else {
                        rep.nontrivial(hash64(marker.as_bytes()) ^ (kind as u64));
                    }
                }
                other => rep.violation("C11:concurrent:send-failed", format!("{kind:?} client: concurrent send {rid} failed: {}", other.short()), replay.clone()),
            }
        }
    }
}
