//! C18: the real `ipputil print` binary, end to end against the loopback peer.

use crate::server::{Plan, Req, Server};
use ippref::{MGroup, MVal, Model, Strictness};
use std::collections::BTreeMap;
use std::io::Write;
use std::os::unix::fs::OpenOptionsExt;
use std::process::{Command, Stdio};
use std::sync::atomic::{AtomicUsize, Ordering::SeqCst};
use std::sync::{Arc, Mutex};
use vkit::json::J;
use vkit::out::Report;
use vkit::rng::{hash64, Rng};
use vkit::util::Args;

const BLOCKING: [&str; 10] = ["media-jam", "toner-empty", "spool-area-full", "cover-open", "door-open", "input-tray-missing", "output-tray-missing", "marker-supply-empty", "paused", "shutdown"];

#[derive(Clone, Debug)]
struct Case {
    id: String,
    doc: Vec<u8>,
    via_stdin: bool,
    /// how the document reaches ipputil: "file" (regular file), "stdin" (pipe, no -f), "fifo" (-f names a FIFO), "devstdin" (-f /dev/stdin on a pipe)
    source: &'static str,
    job_name: Option<String>,
    user_name: Option<String>,
    options: Vec<(String, String)>,
    no_check: bool,
    headers: Vec<(String, String)>,
    scheme: &'static str,
    // scripted printer
    gpa_http: u16,
    gpa_status: u16,
    state: i32,
    reasons: Vec<String>,
    job_http: u16,
    job_status: u16,
}

/// the reference's text classifier: true/false -> boolean, decimal i32 -> integer, else keyword
fn classify(v: &str) -> MVal {
    if v == "true" {
        return MVal::Boolean(true);
    }
    if v == "false" {
        return MVal::Boolean(false);
    }
    let (neg, digits) = match v.strip_prefix('-') {
        Some(d) => (true, d),
        None => (false, v),
    };
    if !digits.is_empty() && digits.bytes().all(|b| b.is_ascii_digit()) && digits.trim_start_matches('0').len() <= 12 {
        let n: i64 = digits.trim_start_matches('0').parse().unwrap_or(0);
        let n = if neg { -n } else { n };
        if n >= i32::MIN as i64 && n <= i32::MAX as i64 {
            return MVal::Integer(n as i32);
        }
    }
    MVal::Text { tag: 0x44, s: v.to_string() }
}

fn word(rng: &mut Rng, lo: usize, hi: usize) -> String {
    let n = rng.range(lo, hi);
    (0..n).map(|_| *rng.pick(&['a', 'b', 'z', 'Q', '0', '9', '-', '_', '.', ' ', 'é', '€', '/', ':', '"', '\'', '=', '%'])).collect::<String>()
}

/// option values every run must see (scenario case i carries TRICKY_VALUES[i % n] under TRICKY_KEYS[i % m])
const TRICKY_VALUES: [&str; 40] = [
    "true", "false", "True", "FALSE", "true ", "\tfalse", "0", "-1", "2147483647", "-2147483648", "2147483648", "-2147483649", "007", "0000000000000000000000012", "99999999999", "-0",
    "1.5", "1e3", "0x10", " 2", "600\n", "1 2", " ", "", "a=b", "a=b=c", "=", "==x", "standard,label=top-secret", "a=1,b=2", "a4,na-letter", "x,,y", ",k=v", "k=v,",
    "two-sided-long-edge", "iso_a4_210x297mm", " na letter ", "é€", "a;b=c", "a&b=c",
];
const TRICKY_KEYS: [&str; 9] = ["job-sheets", "copies", "x-filter", "media", "job-id", "printer-uri", "attributes-charset", "Job-Name", "k"];

/// deterministic scenario prefix: the scripted-printer behaviours every run must see (the random cases vary everything else)
#[derive(Clone, Debug)]
enum Scenario {
    /// state query answered with this IPP status (check on)
    GpaStatus(u16),
    /// Print-Job answered with this IPP status (check off)
    JobStatus(u16),
    /// Print-Job answered with this IPP status after a successful state query (check on)
    JobStatusChecked(u16),
    GpaHttp(u16),
    JobHttp(u16),
    /// printer-state + reasons (check on)
    Printer(i32, Vec<String>),
    /// the same printer but -n given: must submit
    PrinterNoCheck(i32, Vec<String>),
}

fn scenarios() -> Vec<Scenario> {
    let mut v = vec![];
    let failing: Vec<u16> = ippref::registry::STATUS.iter().map(|e| e.0 as u16).filter(|c| *c > 0x00ff).collect();
    for c in &failing {
        v.push(Scenario::GpaStatus(*c));
    }
    // 0x0003..0x00ff (unassigned codes of the successful class) are left out: C16 lets them decode either way
    for c in [0u16, 1, 2, 0x0100, 0x0200, 0x0300, 0x1000, 0x7fff, 0x8000, 0xffff] {
        v.push(Scenario::GpaStatus(c));
    }
    for (k, c) in failing.iter().enumerate() {
        if k % 2 == 0 { v.push(Scenario::JobStatus(*c)); } else { v.push(Scenario::JobStatusChecked(*c)); }
    }
    for c in [0u16, 1, 2, 0x0100, 0x1000, 0xffff] {
        v.push(Scenario::JobStatus(c));
    }
    for h in [400u16, 401, 403, 404, 426, 500, 503] {
        v.push(Scenario::GpaHttp(h));
        v.push(Scenario::JobHttp(h));
    }
    for st in [3, 4, 5] {
        v.push(Scenario::Printer(st, vec![]));
        v.push(Scenario::Printer(st, vec!["none".into()]));
        v.push(Scenario::Printer(st, vec!["media-low-warning".into(), "toner-low-report".into()]));
    }
    for b in BLOCKING {
        v.push(Scenario::Printer(3, vec![b.to_string()]));
        v.push(Scenario::Printer(4, vec!["media-low-warning".into(), b.to_string()]));
        v.push(Scenario::Printer(3, vec![b.to_string(), "none".into()]));
        v.push(Scenario::Printer(4, vec!["none".into(), "toner-low".into(), b.to_string()]));
    }
    v.push(Scenario::PrinterNoCheck(5, vec![]));
    v.push(Scenario::PrinterNoCheck(3, vec!["media-jam".into()]));
    v.push(Scenario::PrinterNoCheck(4, vec!["paused".into(), "none".into()]));
    v
}

fn gen_case(seed: u64, i: u64, tier: &str) -> Case {
    let sc = scenarios();
    if (i as usize) < sc.len() {
        // a random case with a small document, overridden by the scenario
        let mut c = gen_case_random(seed, i + 1_000_000, "scenario");
        c.id = format!("u{i}");
        c.gpa_http = 200;
        c.job_http = 200;
        c.gpa_status = 0;
        c.job_status = 0;
        c.state = 3;
        c.reasons = vec![];
        c.no_check = false;
        let zk = TRICKY_KEYS[i as usize % TRICKY_KEYS.len()].to_string();
        c.options.retain(|(k, _)| *k != zk);
        c.options.push((zk, TRICKY_VALUES[i as usize % TRICKY_VALUES.len()].to_string()));
        match sc[i as usize].clone() {
            Scenario::GpaStatus(s) => c.gpa_status = s,
            Scenario::JobStatus(s) => {
                c.job_status = s;
                c.no_check = true;
            }
            Scenario::JobStatusChecked(s) => c.job_status = s,
            Scenario::GpaHttp(h) => c.gpa_http = h,
            Scenario::JobHttp(h) => c.job_http = h,
            Scenario::Printer(st, rs) => {
                c.state = st;
                c.reasons = rs;
            }
            Scenario::PrinterNoCheck(st, rs) => {
                c.state = st;
                c.reasons = rs;
                c.no_check = true;
            }
        }
        return c;
    }
    let mut c = gen_case_random(seed, i - sc.len() as u64, tier);
    c.id = format!("u{i}");
    c
}

fn gen_case_random(seed: u64, i: u64, tier: &str) -> Case {
    let mut r = Rng::fork(seed ^ 0xC18, i);
    let dlen = match if tier == "scenario" { 2 + r.below(4) } else { r.below(10) } {
        0 => 0,
        1 => 1,
        2..=6 => r.range(2, 20_000),
        7 | 8 => r.range(20_000, 400_000),
        _ => {
            if tier == "thorough" {
                r.range(1 << 20, 8 << 20)
            } else {
                r.range(400_000, 1 << 20)
            }
        }
    };
    let doc = match r.below(3) {
        0 => r.bytes(dlen),
        1 => (0..dlen).map(|k| [0x03u8, 0x01, 0x00, 0x0d, 0x0a, 0x30, 0xff][k % 7]).collect(),
        _ => {
            let mut d = b"%PDF-1.7\r\n".to_vec();
            d.extend(r.bytes(dlen));
            d
        }
    };
    let text = |r: &mut Rng| -> String {
        let s = word(r, 1, 20);
        let s = s.trim_start_matches('-').to_string();
        if s.is_empty() {
            "x".into()
        } else {
            s
        }
    };
    let mut options = vec![];
    for k in 0..r.range(0, 5) {
        let key = match r.below(3) {
            0 => format!("opt{k}"),
            1 => r.pick(&["copies", "sides", "media", "print-color-mode", "number-up"]).to_string(),
            // keys that coincide with names the library treats specially elsewhere are ordinary job attributes here
            _ => r.pick(&["job-id", "job-uri", "printer-uri", "attributes-charset", "attributes-natural-language", "job-name", "requesting-user-name", "copies", "Job-Id"]).to_string(),
        };
        let val = match r.below(9) {
            0 => "true".to_string(),
            1 => "false".to_string(),
            2 => r.i32().to_string(),
            3 => r.pick(&["0", "-1", "2147483647", "-2147483648", "2147483648", "-2147483649", "007", "99999999999"]).to_string(),
            4 => format!("a={}", word(&mut r, 0, 5)),
            5 => String::new(),
            6 => r.pick(&TRICKY_VALUES).to_string(),
            _ => word(&mut r, 1, 12).trim_start_matches('-').to_string(),
        };
        options.push((key, val));
    }
    let mut headers = vec![];
    for k in 0..r.range(0, 2) {
        headers.push((format!("X-Job-Ticket-{k}"), format!("t{}", r.below(100_000))));
    }
    let blocked = r.chance(1, 4);
    Case {
        id: format!("u{i}"),
        doc,
        via_stdin: false,
        source: *r.pick(&["file", "file", "file", "stdin", "stdin", "fifo", "devstdin"]),
        job_name: if r.chance(2, 3) { Some(text(&mut r)) } else { None },
        user_name: if r.chance(2, 3) { Some(text(&mut r)) } else { None },
        options,
        no_check: r.chance(1, 3),
        headers,
        scheme: if r.chance(1, 2) { "http" } else { "ipp" },
        gpa_http: if r.chance(1, 12) { *r.pick(&[500u16, 404, 403]) } else { 200 },
        gpa_status: if r.chance(1, 10) { *r.pick(&[0x0400u16, 0x0403, 0x0500, 0x0507]) } else { *r.pick(&[0u16, 0, 0, 1, 2]) },
        state: if blocked && r.chance(1, 2) { 5 } else { *r.pick(&[3, 4]) },
        reasons: if blocked {
            let mut v = vec!["media-low-warning".to_string()];
            let at = r.range(0, 1);
            v.insert(at, r.pick(&BLOCKING).to_string());
            if r.chance(1, 2) {
                v.truncate(1);
                v[0] = r.pick(&BLOCKING).to_string();
            }
            v
        } else if r.chance(1, 2) {
            vec!["none".into()]
        } else {
            vec![]
        },
        job_http: if r.chance(1, 10) { *r.pick(&[503u16, 401]) } else { 200 },
        job_status: if r.chance(1, 6) { *r.pick(&[0x0507u16, 0x040a, 0x0400, 0x0506]) } else { *r.pick(&[0u16, 0, 1, 2]) },
    }
}

fn ipp_response(code: u16, id: u32, printer: Option<(i32, &[String])>) -> Vec<u8> {
    ipp_response_filtered(code, id, printer, None)
}

fn ipp_response_filtered(code: u16, id: u32, printer: Option<(i32, &[String])>, requested: Option<&[String]>) -> Vec<u8> {
    let wanted = |name: &str| -> bool {
        match requested {
            None => true,
            Some(r) => r.iter().any(|k| k == name || k == "all" || k == "printer-description"),
        }
    };
    let mut op = BTreeMap::new();
    op.insert("attributes-charset".to_string(), MVal::Text { tag: 0x47, s: "utf-8".into() });
    op.insert("attributes-natural-language".to_string(), MVal::Text { tag: 0x48, s: "en".into() });
    let mut groups = vec![MGroup { tag: 1, attrs: op }];
    match printer {
        Some((state, reasons)) => {
            let mut p = BTreeMap::new();
            if wanted("printer-state") {
                p.insert("printer-state".to_string(), MVal::Enum(state));
            }
            if !reasons.is_empty() && wanted("printer-state-reasons") {
                let v: Vec<MVal> = reasons.iter().map(|s| MVal::Text { tag: 0x44, s: s.clone() }).collect();
                p.insert("printer-state-reasons".to_string(), MVal::Set(v).normalize());
            }
            if wanted("printer-name") {
                p.insert("printer-name".to_string(), MVal::Text { tag: 0x42, s: "verif".into() });
            }
            if wanted("printer-state-message") {
                p.insert("printer-state-message".to_string(), MVal::Text { tag: 0x41, s: "scripted printer".into() });
            }
            groups.push(MGroup { tag: 4, attrs: p });
        }
        None => {
            let mut j = BTreeMap::new();
            j.insert("job-id".to_string(), MVal::Integer(42));
            j.insert("job-state".to_string(), MVal::Enum(3));
            groups.push(MGroup { tag: 2, attrs: j });
        }
    }
    crate::ref_bytes(&Model { version: 0x0101, code, id, groups, data: vec![] })
}

struct Outcome {
    case: Case,
    exit: Option<i32>,
    stderr: String,
    requests: Vec<Req>,
    argv: Vec<String>,
    timed_out: bool,
}

fn run_one(srv: &Arc<Server>, ipputil: &str, work: &str, c: Case) -> Outcome {
    let cc = c.clone();
    srv.on(
        &c.id,
        Arc::new(move |r: &Req| {
            let w = ippref::decode_strict(&r.body, &Strictness { bodies: false, unique_names: false });
            // a conforming printer returns only what requested-attributes names (RFC 8011 4.2.5); 'all' or a group name = everything
            let requested: Option<Vec<String>> = w.as_ref().ok().and_then(|w| {
                w.groups.iter().filter(|g| g.tag == 1).flat_map(|g| g.attrs.iter()).find(|a| a.name == b"requested-attributes").map(|a| {
                    a.values.iter().filter_map(|v| if let ippref::WVal::Scalar { body, .. } = v { Some(String::from_utf8_lossy(body).into_owned()) } else { None }).collect()
                })
            });
            let (op, id) = w.map(|w| (w.code, w.id)).unwrap_or((0, 0));
            if op == 0x000b {
                Plan { status: cc.gpa_http, ..Plan::ok(ipp_response_filtered(cc.gpa_status, id, Some((cc.state, &cc.reasons)), requested.as_deref())) }
            } else {
                Plan { status: cc.job_http, ..Plan::ok(ipp_response(cc.job_status, id, None)) }
            }
        }),
    );
    let uri = format!("{}://127.0.0.1:{}/case/{}/printers/q", c.scheme, srv.port, c.id);
    let mut argv: Vec<String> = vec![];
    for (k, v) in &c.headers {
        argv.push("-H".into());
        argv.push(format!("{k}={v}"));
    }
    argv.push("print".into());
    if c.no_check {
        argv.push("-n".into());
    }
    let path = format!("{work}/{}.doc", c.id);
    let mut fifo_writer = None;
    match c.source {
        "file" => {
            std::fs::write(&path, &c.doc).expect("write doc");
            argv.push("-f".into());
            argv.push(path.clone());
        }
        "fifo" => {
            let _ = std::fs::remove_file(&path);
            let ok = Command::new("mkfifo").arg(&path).status().map(|s| s.success()).unwrap_or(false);
            assert!(ok, "mkfifo failed");
            argv.push("-f".into());
            argv.push(path.clone());
            let doc = c.doc.clone();
            let p2 = path.clone();
            // the writer blocks in open() until ipputil opens the FIFO for reading
            fifo_writer = Some(std::thread::spawn(move || {
                if let Ok(mut f) = std::fs::OpenOptions::new().write(true).open(&p2) {
                    let _ = f.write_all(&doc);
                }
            }));
        }
        "devstdin" => {
            argv.push("-f".into());
            argv.push("/dev/stdin".into());
        }
        _ => {}
    }
    let via_stdin = c.source == "stdin" || c.source == "devstdin";
    if let Some(j) = &c.job_name {
        argv.push("-j".into());
        argv.push(j.clone());
    }
    if let Some(u) = &c.user_name {
        argv.push("-u".into());
        argv.push(u.clone());
    }
    for (k, v) in &c.options {
        argv.push("-o".into());
        argv.push(format!("{k}={v}"));
    }
    argv.push(uri);
    let mut child = Command::new(ipputil).args(&argv).stdin(if via_stdin { Stdio::piped() } else { Stdio::null() }).stdout(Stdio::null()).stderr(Stdio::piped()).spawn().expect("spawn ipputil");
    if via_stdin {
        let mut si = child.stdin.take().unwrap();
        let doc = c.doc.clone();
        std::thread::spawn(move || {
            let _ = si.write_all(&doc);
        });
    }
    // watchdog
    let t0 = std::time::Instant::now();
    let mut timed_out = false;
    let status = loop {
        match child.try_wait() {
            Ok(Some(s)) => break Some(s),
            Ok(None) => {
                if t0.elapsed().as_secs() > 180 {
                    let _ = child.kill();
                    timed_out = true;
                    break child.wait().ok();
                }
                std::thread::sleep(std::time::Duration::from_millis(5));
            }
            Err(_) => break None,
        }
    };
    let mut stderr = String::new();
    if let Some(mut e) = child.stderr.take() {
        use std::io::Read;
        let _ = e.read_to_string(&mut stderr);
    }
    if let Some(h) = fifo_writer {
        // if ipputil never opened the FIFO (e.g. the state check refused), unblock the writer by opening the read side ourselves
        if !h.is_finished() {
            let _ = std::fs::OpenOptions::new().read(true).custom_flags(libc_o_nonblock()).open(&path);
        }
        let _ = h.join();
    }
    let _ = std::fs::remove_file(&path);
    let requests = srv.requests_for(&c.id);
    srv.off(&c.id);
    Outcome { case: c, exit: status.and_then(|s| s.code()), stderr, requests, argv, timed_out }
}

fn libc_o_nonblock() -> i32 {
    0o4000 // O_NONBLOCK on Linux
}

fn judge(rep: &mut Report, o: &Outcome, port: u16, replay: &[String]) {
    rep.eval();
    let c = &o.case;
    let label = format!("ipputil {:?} (doc {}B via {})", o.argv, c.doc.len(), c.source);
    let mut viol = |rep: &mut Report, sig: &str, why: String| {
        rep.violation(format!("C18:{sig}"), format!("{label}: {why}; exit={:?} stderr={:?}", o.exit, o.stderr.chars().take(200).collect::<String>()), replay.to_vec());
    };
    if o.timed_out {
        rep.inconclusive(format!("watchdog: {label} did not exit within 180 s"));
        return;
    }
    let decoded: Vec<Option<ippref::WMsg>> = o.requests.iter().map(|r| ippref::decode_strict(&r.body, &Strictness { bodies: true, unique_names: true }).ok()).collect();
    let ops: Vec<u16> = decoded.iter().map(|w| w.as_ref().map(|w| w.code).unwrap_or(0xffff)).collect();
    let blocked = c.state == 5 || c.reasons.iter().any(|r| BLOCKING.contains(&r.as_str()));
    let success = |s: u16| s <= 2;
    // expected exchange sequence
    let mut expect_ops: Vec<u16> = vec![];
    let mut all_ok = true;
    let mut judged_exit = true;
    if !c.no_check {
        expect_ops.push(0x000b);
        if c.gpa_http >= 400 || !success(c.gpa_status) {
            all_ok = false;
        } else if blocked {
            judged_exit = false; // refusal because not ready: exit status recorded, not judged
        }
    }
    let submits = c.no_check || (all_ok && !blocked);
    if submits {
        expect_ops.push(0x0002);
        if c.job_http >= 400 || !success(c.job_status) {
            all_ok = false;
        }
    }
    rep.seen("exchange_shapes", format!("{expect_ops:04x?} blocked={blocked} all_ok={all_ok}"));
    if ops != expect_ops {
        let kind = if !submits && ops.contains(&0x0002) { "job-submitted-despite-state" } else { "exchange-sequence" };
        viol(rep, kind, format!("peer saw operations {ops:04x?}, expected {expect_ops:04x?} (check {}, printer {} state={} reasons={:?}, GPA http {} ipp {:#06x})", if c.no_check { "off" } else { "on" }, if blocked { "blocked" } else { "ready" }, c.state, c.reasons, c.gpa_http, c.gpa_status));
        return;
    }
    for (r, w) in o.requests.iter().zip(decoded.iter()) {
        if r.method != "POST" || r.target != format!("/case/{}/printers/q", c.id) {
            viol(rep, "request-line", format!("{} {}", r.method, r.target));
        }
        if r.header_all("host") != vec![format!("127.0.0.1:{port}").as_str()] {
            viol(rep, "host-header", format!("{:?}", r.header_all("host")));
        }
        for (k, v) in &c.headers {
            if !r.header_all(k).contains(&v.as_str()) {
                viol(rep, "extra-header-missing", format!("header {k}={v} not on the {} request: {:?}", if w.as_ref().map(|w| w.code) == Some(2) { "Print-Job" } else { "Get-Printer-Attributes" }, r.headers));
            }
        }
        if w.is_none() {
            viol(rep, "request-malformed", "body does not decode".into());
        }
    }
    if submits {
        let w = decoded.last().unwrap().as_ref();
        if let Some(w) = w {
            let m = ippref::interp(w).normalize();
            if w.data != c.doc {
                let p = w.data.iter().zip(c.doc.iter()).position(|(a, b)| a != b).unwrap_or(w.data.len().min(c.doc.len()));
                viol(rep, "document-differs", format!("document received {} bytes, file/stdin had {}; first difference at {p}", w.data.len(), c.doc.len()));
            } else if !c.doc.is_empty() {
                rep.nontrivial(hash64(&c.doc) ^ hash64(format!("{:?}", o.argv).as_bytes()));
            }
            let tags: Vec<u8> = m.groups.iter().map(|g| g.tag).collect();
            let mut want_job: BTreeMap<String, MVal> = BTreeMap::new();
            for (k, v) in &c.options {
                want_job.insert(k.clone(), classify(v));
            }
            let want_tags: Vec<u8> = if want_job.is_empty() { vec![1] } else { vec![1, 2] };
            if tags != want_tags {
                viol(rep, "groups", format!("groups {tags:?} expected {want_tags:?}"));
            } else {
                let opg = &m.groups[0].attrs;
                let name = |s: &String| MVal::Text { tag: 0x42, s: s.clone() };
                let mut want_op: BTreeMap<String, MVal> = BTreeMap::new();
                if let Some(j) = &c.job_name {
                    want_op.insert("job-name".into(), name(j));
                }
                if let Some(u) = &c.user_name {
                    want_op.insert("requesting-user-name".into(), name(u));
                }
                let mut got_op = opg.clone();
                got_op.remove("attributes-charset");
                got_op.remove("attributes-natural-language");
                let pu = got_op.remove("printer-uri");
                let want_pu = format!("ipp://127.0.0.1:{port}/case/{}/printers/q", c.id);
                if pu != Some(MVal::Text { tag: 0x45, s: want_pu.clone() }) {
                    viol(rep, "printer-uri", format!("{pu:?} expected {want_pu}"));
                }
                if got_op != want_op {
                    viol(rep, "operation-attributes", format!("{got_op:?} expected {want_op:?}"));
                }
                if !want_job.is_empty() && m.groups[1].attrs != want_job {
                    viol(rep, "option-typing", format!("job attributes {:?} expected {want_job:?}", m.groups[1].attrs));
                }
            }
        }
    }
    if judged_exit {
        match o.exit {
            Some(0) if all_ok => {}
            Some(x) if x != 0 && !all_ok => {}
            other => viol(rep, if all_ok { "exit-nonzero-on-success" } else { "exit-zero-on-failure" }, format!("exit status {other:?}, every exchange succeeded with a successful status: {all_ok} (GPA http {} ipp {:#06x}; job http {} ipp {:#06x})", c.gpa_http, c.gpa_status, c.job_http, c.job_status)),
        }
    } else {
        rep.seen("exit_status_when_not_ready", format!("{:?}", o.exit));
    }
}

pub fn run(args: &Args, tier: &str, seed: u64) -> Report {
    let mut rep = Report::new("C18", tier, seed);
    let ipputil = args.str("--ipputil", "/verif/harness/target/util/release/ipputil");
    let work = args.str("--work", "/verif/work/c18");
    let _ = std::fs::create_dir_all(&work);
    let n: u64 = scenarios().len() as u64 + args.u64("--cases", if tier == "thorough" { 2000 } else { 60 });
    rep.count("scripted_scenarios", scenarios().len() as i64);
    let only = args.get("--only").and_then(|s| s.parse::<u64>().ok());
    let srv = Server::start(None).expect("server");
    let cases: Vec<Case> = (0..n).filter(|i| only.map(|o| o == *i).unwrap_or(true)).map(|i| gen_case(seed, i, tier)).collect();
    let next = AtomicUsize::new(0);
    let outs: Mutex<Vec<Outcome>> = Mutex::new(vec![]);
    std::thread::scope(|s| {
        for _ in 0..8 {
            s.spawn(|| loop {
                let i = next.fetch_add(1, SeqCst);
                if i >= cases.len() {
                    break;
                }
                let o = run_one(&srv, &ipputil, &work, cases[i].clone());
                outs.lock().unwrap().push(o);
            });
        }
    });
    let mut outs = outs.into_inner().unwrap();
    outs.sort_by_key(|o| o.case.id[1..].parse::<u64>().unwrap_or(0));
    for o in &outs {
        let replay = vec!["c18".to_string(), "--seed".into(), seed.to_string(), "--only".into(), o.case.id[1..].to_string()];
        rep.max("max_document_bytes", o.case.doc.len() as i64);
        rep.seen("document_sources", o.case.source);
        for (_, v) in &o.case.options {
            rep.seen("option_value_classes", match classify(v) {
                MVal::Boolean(_) => "boolean",
                MVal::Integer(_) => "integer",
                _ => "keyword",
            });
        }
        if rep.samples.len() < 4 {
            rep.sample(J::obj().with("argv", J::Arr(o.argv.iter().map(|a| J::Str(a.clone())).collect())).with("document_bytes", o.case.doc.len()).with("peer_saw_operations", format!("{:04x?}", o.requests.iter().map(|r| ippref::decode_strict(&r.body, &Strictness { bodies: false, unique_names: false }).map(|w| w.code).unwrap_or(0xffff)).collect::<Vec<_>>())).with("exit", o.exit.unwrap_or(-1)));
        }
        judge(&mut rep, o, srv.port, &replay);
    }
    srv.stop();
    rep.rule = "The real ipputil binary built from /repo/util is run as a child process against the loopback peer: command lines (document of 0 B..MiBs of arbitrary bytes given as a regular file, on standard input, as a FIFO named by -f, or as -f /dev/stdin on a pipe, optional -j/-u, 0..5 -o key=value options over the textual classes true/false / decimal i32 incl. boundaries / keyword incl. values containing '=' and empty values, -n on/off, extra -H headers, http:// and ipp:// targets) x scripted printers (printer-state idle/processing/stopped, reasons none / blocking keyword single or in a set, IPP status of each reply, HTTP errors). Offline checker over the peer's event log + exit status: expected exchange sequence (Get-Printer-Attributes first unless -n; nothing after a stopped/blocked answer or a failed check; exactly one Print-Job otherwise), document bytes == file/stdin bytes, job-name / requesting-user-name as nameWithoutLanguage, options typed by the reference text classifier, extra headers on every request, exit 0 <=> every exchange succeeded with a successful status (exit status after a not-ready refusal is recorded, not judged). evaluations = ipputil runs.".into();
    if only.is_none() {
        rep.require(rep.sets.get("option_value_classes").map(|s| s.len()).unwrap_or(0) == 3, "boolean, integer and keyword option values exercised");
        rep.require(rep.sets.get("exchange_shapes").map(|s| s.len()).unwrap_or(0) >= 4, "several exchange shapes (ready, blocked, failing) exercised");
    }
    rep
}
