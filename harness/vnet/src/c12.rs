//! C12: TLS - servers are authenticated unless the caller explicitly opts out. Complete matrix.

use crate::c11::Kind;
use crate::clients::*;
use crate::server::{Event, Plan, Req, Server};
use ippref::{MGroup, MVal, Model};
use std::sync::{Arc, Mutex};
use vkit::json::J;
use vkit::mirror;
use vkit::out::Report;
use vkit::util::Args;

/// "valided": valid for the host, under a second, tiny Ed25519 root (its DER encoding is shorter than 256 bytes)
/// "validfull": valid for the host, under a third root whose PEM form consists of full 64-character lines only
pub const LEAVES: [&str; 9] = ["valid", "wronghost", "expired", "selfsigned", "unknownca", "valided", "justexpired", "validfull", "validip"];
pub const ROOTS: [&str; 9] = ["none", "pem", "der", "unrelated", "edpem", "edder", "pemcrlf", "pemtext", "fullpem"];
pub const IGNORE: [Option<bool>; 3] = [None, Some(false), Some(true)];

fn request(id: u32) -> Model {
    let mut attrs = std::collections::BTreeMap::new();
    attrs.insert("attributes-charset".to_string(), MVal::Text { tag: 0x47, s: "utf-8".into() });
    attrs.insert("attributes-natural-language".to_string(), MVal::Text { tag: 0x48, s: "en".into() });
    attrs.insert("printer-uri".to_string(), MVal::Text { tag: 0x45, s: "ipps://localhost/ipp/print".into() });
    attrs.insert("requesting-user-name".to_string(), MVal::Text { tag: 0x42, s: "SECRET-USER-NAME".into() });
    Model { version: 0x0101, code: 0x000b, id, groups: vec![MGroup { tag: 1, attrs }], data: b"SECRET-DOCUMENT".to_vec() }
}

pub fn run(args: &Args, tier: &str, seed: u64, backend: &str) -> Report {
    let mut rep = Report::new("C12", tier, seed);
    rep.exhaustive = Some(true);
    let certs = args.str("--certs", "/verif/work/certs");
    let rt = runtime();
    let only = args.get("--only").map(|s| s.to_string());
    let reduced = args.has("--reduced");
    let read = |n: &str| std::fs::read(format!("{certs}/{n}")).unwrap_or_else(|e| panic!("{certs}/{n}: {e}"));
    let root_bytes = |r: &str| -> Option<Vec<u8>> {
        match r {
            "pem" => Some(read("ca1.pem")),
            // the PEM block preceded by the text dump `openssl x509 -text` writes in front of it
            "pemtext" => Some(read("ca1.text.pem")),
            // the same PEM root with CRLF line endings and a comment line in front (as exported on other platforms)
            "pemcrlf" => Some(format!("# verif ca1\r\n{}", String::from_utf8_lossy(&read("ca1.pem")).replace('\n', "\r\n")).into_bytes()),
            "der" => Some(read("ca1.der")),
            "unrelated" => Some(read("ca2.pem")),
            "edpem" => Some(read("ca4.pem")),
            "edder" => Some(read("ca4.der")),
            "fullpem" => Some(read("ca5.pem")),
            _ => None,
        }
    };
    let version_sets: Vec<(&str, Vec<&'static rustls::SupportedProtocolVersion>)> = if tier == "thorough" {
        vec![("tls1.2+1.3", vec![&rustls::version::TLS12, &rustls::version::TLS13]), ("tls1.2-only", vec![&rustls::version::TLS12]), ("tls1.3-only", vec![&rustls::version::TLS13])]
    } else {
        vec![("tls1.2+1.3", vec![&rustls::version::TLS12, &rustls::version::TLS13])]
    };
    let response = {
        let mut attrs = std::collections::BTreeMap::new();
        attrs.insert("attributes-charset".to_string(), MVal::Text { tag: 0x47, s: "utf-8".into() });
        attrs.insert("printer-state".to_string(), MVal::Enum(3));
        crate::ref_bytes(&Model { version: 0x0101, code: 0, id: 1, groups: vec![MGroup { tag: 1, attrs }], data: vec![] })
    };
    let rep_m = Mutex::new(rep);
    for (vname, versions) in &version_sets {
        // one TLS peer per server certificate; the five peers work in parallel, cells on one peer run one at a time
        std::thread::scope(|s| {
            for leaf in LEAVES {
                let rep_m = &rep_m;
                let rt = &rt;
                let only = &only;
                let response = response.clone();
                let root_bytes = &root_bytes;
                let certs = certs.clone();
                s.spawn(move || {
                    let cfg = match crate::server::tls_config(&format!("{certs}/{leaf}.pem"), &format!("{certs}/{leaf}.key"), versions) {
                        Ok(c) => c,
                        Err(e) => {
                            rep_m.lock().unwrap().inconclusive(format!("harness: TLS peer for leaf {leaf}: {e}"));
                            return;
                        }
                    };
                    let srv = Server::start(Some(cfg)).expect("tls server");
                    let mut n = 0u32;
                    // target scheme: thorough = both spellings of a TLS target for every cell; quick = one per cell, chosen by a hash of the cell and the seed
                    let schemes: &[&str] = if tier == "thorough" { &["ipps", "https"] } else { &[""] };
                    for scheme_dim in schemes {
                    for kind in [Kind::Blocking, Kind::Async] {
                        for ignore in IGNORE {
                            for root in ROOTS {
                                n += 1;
                                let base_cell = format!("{:?}/{backend}/ignore={ignore:?}/root={root}/leaf={leaf}/{vname}", kind);
                                let mut scheme: &str = if scheme_dim.is_empty() { if (vkit::rng::hash64(base_cell.as_bytes()) ^ seed) & 1 == 0 { "https" } else { "ipps" } } else { scheme_dim };
                                // replay of one cell: the spelling recorded with the cell wins over the seed-dependent choice
                                if let Some(o) = only.as_ref() {
                                    if scheme_dim.is_empty() || *scheme_dim == "ipps" {
                                        if o.starts_with(&format!("{base_cell}/https")) { scheme = "https"; } else if o.starts_with(&format!("{base_cell}/ipps")) { scheme = "ipps"; }
                                    }
                                }
                                // target host: the name the "valid" leaves are issued for (dNSName only), or the IP literal the `validip` leaf is issued for
                                // (iPAddress only; the wrong-host leaf matches neither); one spelling per cell, chosen by another bit of the cell hash and the seed (a recorded cell names its own)
                                let mut host: &str = if ((vkit::rng::hash64(base_cell.as_bytes()) >> 1) ^ (seed >> 1)) & 1 == 0 { "localhost" } else { "127.0.0.1" };
                                if let Some(o) = only.as_ref() {
                                    if o.starts_with(&format!("{base_cell}/")) {
                                        if o.ends_with("/127.0.0.1") { host = "127.0.0.1"; } else { host = "localhost"; }
                                    }
                                }
                                let cell = format!("{base_cell}/{scheme}/{host}");
                                let id = format!("{leaf}{n}");
                                if only.as_ref().map(|o| o != &cell && format!("{o}/localhost") != cell).unwrap_or(false) {
                                    continue;
                                }
                                // mixed-backend builds in the quick tier: the sub-matrix that decides acceptance and the opt-out
                                if reduced && !(matches!(leaf, "valid" | "wronghost" | "expired") && matches!(root, "none" | "pem" | "der") && ignore != Some(false)) {
                                    continue;
                                }
                                // the certificate names the target host: the localhost leaves carry a dNSName only, `validip` an iPAddress only, `wronghost` another name
                                let name_matches = match leaf { "wronghost" => false, "validip" => host == "127.0.0.1", _ => host == "localhost" };
                                let should_accept = ignore == Some(true) || (name_matches && (((root == "pem" || root == "der" || root == "pemcrlf" || root == "pemtext") && (leaf == "valid" || leaf == "validip")) || ((root == "edpem" || root == "edder") && leaf == "valided") || (root == "fullpem" && leaf == "validfull")));
                                let resp = response.clone();
                                srv.on(&id, Arc::new(move |_r: &Req| Plan::ok(resp.clone())));
                                let events_before = srv.log.lock().unwrap().len();
                                rep_m.lock().unwrap().seen("target_schemes", scheme);
                                rep_m.lock().unwrap().seen("target_hosts", host);
                                let uri = format!("{scheme}://{host}:{}/case/{id}/ipp/print", srv.port);
                                // cells with nothing configured go through the plain constructors (IppClient::new / AsyncIppClient::new): no timeout there
                                let ccfg = ClientCfg { ignore_tls: ignore, ca: root_bytes(root), timeout_ms: if ignore.is_none() && root == "none" { None } else { Some(30_000) }, ..ClientCfg::default() };
                                let mut req = mirror::to_ipp(&request(n));
                                *req.payload_mut() = ipp::payload::IppPayload::new(std::io::Cursor::new(b"SECRET-DOCUMENT".to_vec()));
                                let result = match kind {
                                    Kind::Blocking => send_blocking(&blocking_client(&uri, &ccfg), req),
                                    Kind::Async => send_async(rt, &async_client(&uri, &ccfg), req),
                                };
                                // give the peer's connection thread a moment to log the close of a rejected handshake
                                let mut app_in = 0u64;
                                let mut saw_request = false;
                                for _ in 0..200 {
                                    let log = srv.log.lock().unwrap();
                                    let new = &log[events_before..];
                                    // only connections opened during this cell belong to it (an earlier cell's connection may close late)
                                    let mine: Vec<u64> = new.iter().filter_map(|e| if let Event::ConnOpen { conn, .. } = e { Some(*conn) } else { None }).collect();
                                    let opens = mine.len();
                                    let closes = new.iter().filter(|e| matches!(e, Event::ConnClose { conn, .. } if mine.contains(conn))).count();
                                    app_in = new.iter().map(|e| if let Event::ConnClose { conn, app_bytes_in, .. } = e { if mine.contains(conn) { *app_bytes_in } else { 0 } } else { 0 }).sum();
                                    saw_request = new.iter().any(|e| matches!(e, Event::Request { req, .. } if mine.contains(&req.conn)));
                                    if opens == closes || (should_accept && saw_request) {
                                        break;
                                    }
                                    drop(log);
                                    std::thread::sleep(std::time::Duration::from_millis(5));
                                }
                                srv.off(&id);
                                let mut rep = rep_m.lock().unwrap();
                                rep.eval();
                                rep.nontrivial(vkit::rng::hash64(cell.as_bytes()));
                                rep.seen("leaves", leaf);
                                rep.seen("roots", root);
                                rep.seen("cells_accept_expected", if should_accept { "accept" } else { "reject" });
                                let replay = vec!["c12".to_string(), "--only".into(), cell.clone()];
                                match (&result, should_accept) {
                                    (Sent::Ok(_), true) => rep.count("accepted_as_required", 1),
                                    (Sent::Ok(_), false) => rep.violation(
                                        format!("C12:accepted-unauthenticated-server:{:?}:{backend}", kind),
                                        format!("cell {cell}: send returned Ok although the server certificate is not acceptable and TLS errors were not to be ignored"),
                                        replay.clone(),
                                    ),
                                    (Sent::Panic(p), _) => rep.violation("C12:panic", format!("cell {cell}: {p}"), replay.clone()),
                                    (other, true) => rep.violation(
                                        format!("C12:rejected-trusted-server:{:?}:{backend}:root={root}:ignore={ignore:?}", kind),
                                        format!("cell {cell}: send failed although the server must be accepted: {}", other.short()),
                                        replay.clone(),
                                    ),
                                    (_, false) => {
                                        rep.count("rejected_as_required", 1);
                                        if saw_request || app_in > 0 {
                                            rep.violation(
                                                format!("C12:request-reached-rejected-server:{:?}:{backend}", kind),
                                                format!("cell {cell}: the client returned an error but the peer application received {app_in} decrypted bytes (request seen: {saw_request})"),
                                                replay.clone(),
                                            );
                                        }
                                    }
                                }
                                if rep.samples.len() < 4 && (n == 3 || n == 10) {
                                    rep.sample(J::obj().with("cell", cell.as_str()).with("expected", if should_accept { "accept" } else { "reject" }).with("send_result", result.short()).with("peer_app_bytes_in", app_in));
                                }
                            }
                        }
                    }
                    }
                    srv.stop();
                });
            }
        });
    }
    let mut rep = rep_m.into_inner().unwrap();
    // ---- one client object used for two sends while the server is restarted with another certificate in between (same port):
    // the second send needs a new connection and a full handshake, meets an expired certificate and must be refused - a client
    // that remembers its own earlier verdict (a cached "this peer is fine") would not look at the certificate again
    if only.is_none() && !reduced {
        for kind in [Kind::Blocking, Kind::Async] {
            for (second_leaf, second_must_accept) in [("expired", false), ("wronghost", false), ("valid", true)] {
                rep.eval();
                rep.count("client_reuse_sequences", 1);
                let cell = format!("{kind:?}/{backend}/reuse/valid-then-{second_leaf}");
                rep.nontrivial(vkit::rng::hash64(cell.as_bytes()));
                let replay = vec!["c12".to_string()];
                let first = crate::server::certified_key(&format!("{certs}/valid.pem"), &format!("{certs}/valid.key"));
                let second = crate::server::certified_key(&format!("{certs}/{second_leaf}.pem"), &format!("{certs}/{second_leaf}.key"));
                let (first, second) = match (first, second) {
                    (Ok(a), Ok(b)) => (a, b),
                    (a, b) => {
                        rep.inconclusive(format!("harness: certificates for the client-reuse sequence: {:?} {:?}", a.err(), b.err()));
                        continue;
                    }
                };
                let switch = Arc::new(crate::server::SwitchableCert(Mutex::new(first)));
                let cfg = match crate::server::tls_config_switchable(switch.clone()) {
                    Ok(c) => c,
                    Err(e) => {
                        rep.inconclusive(format!("harness: switchable TLS peer: {e}"));
                        continue;
                    }
                };
                let srv = Server::start(Some(cfg)).expect("tls server");
                let resp = response.clone();
                // the peer announces `Connection: close` and closes the connection after every answer, so the second send needs a new
                // connection and with it a new handshake: a client that keeps connections alive across sends would otherwise
                // legitimately ride the connection it authenticated under the first certificate
                srv.on("r1", Arc::new(move |_r: &Req| Plan { framing: crate::server::Framing::LengthThenClose, ..Plan::ok(resp.clone()) }));
                let uri = format!("ipps://localhost:{}/case/r1/ipp/print", srv.port);
                let ccfg = ClientCfg { ignore_tls: None, ca: root_bytes("pem"), timeout_ms: Some(30_000), ..ClientCfg::default() };
                let mk = |n: u32| {
                    let mut req = mirror::to_ipp(&request(n));
                    *req.payload_mut() = ipp::payload::IppPayload::new(std::io::Cursor::new(b"SECRET-DOCUMENT".to_vec()));
                    req
                };
                // "the server is restarted with another certificate": a new TLS configuration for the connections to come, so the
                // sessions handed out under the first certificate cannot be resumed (resuming one - like riding a kept-alive
                // connection - is a continuation of the exchange that was authenticated, not a new verdict on a certificate)
                let restart_with = |srv: &Server, key: &Arc<rustls::sign::CertifiedKey>| {
                    let sw = Arc::new(crate::server::SwitchableCert(Mutex::new(key.clone())));
                    srv.replace_tls(crate::server::tls_config_switchable(sw).expect("tls config"));
                };
                let (r1, r2, seen_after) = match kind {
                    Kind::Blocking => {
                        let c = blocking_client(&uri, &ccfg);
                        let r1 = send_blocking(&c, mk(1));
                        restart_with(&srv, &second);
                        let before = srv.requests_for("r1").len();
                        let r2 = send_blocking(&c, mk(2));
                        std::thread::sleep(std::time::Duration::from_millis(50));
                        (r1, r2, srv.requests_for("r1").len() - before)
                    }
                    Kind::Async => {
                        let c = async_client(&uri, &ccfg);
                        let r1 = send_async(&rt, &c, mk(1));
                        restart_with(&srv, &second);
                        let before = srv.requests_for("r1").len();
                        let r2 = send_async(&rt, &c, mk(2));
                        std::thread::sleep(std::time::Duration::from_millis(50));
                        (r1, r2, srv.requests_for("r1").len() - before)
                    }
                };
                let conns: Vec<u64> = srv.requests_for("r1").iter().map(|r| r.conn).collect();
                srv.stop();
                if conns.len() >= 2 && conns[1..].contains(&conns[0]) {
                    // the second request travelled on the connection authenticated under the first certificate: nothing to judge
                    rep.count("client_reuse_sequences_on_one_connection_unjudged", 1);
                    continue;
                }
                if !r1.is_ok() {
                    rep.violation(format!("C12:rejected-trusted-server:{kind:?}:{backend}:reuse-first-send"), format!("cell {cell}: the first send to the valid server failed: {}", r1.short()), replay.clone());
                    continue;
                }
                match (r2.is_ok(), second_must_accept) {
                    (true, true) | (false, false) => {
                        if !second_must_accept && seen_after > 0 {
                            rep.violation(format!("C12:request-reached-rejected-server:{kind:?}:{backend}"), format!("cell {cell}: the second send failed but the peer application saw {seen_after} request(s)"), replay.clone());
                        }
                    }
                    (true, false) => rep.violation(
                        format!("C12:accepted-unauthenticated-server:{kind:?}:{backend}"),
                        format!("cell {cell}: the same client object was used again after the server's certificate had become '{second_leaf}': send returned Ok ({seen_after} request(s) reached the peer)"),
                        replay.clone(),
                    ),
                    (false, true) => rep.violation(format!("C12:rejected-trusted-server:{kind:?}:{backend}:reuse-second-send"), format!("cell {cell}: second send through the same client failed: {}", r2.short()), replay.clone()),
                }
            }
        }
    }
    rep.extra.insert("tls_backend_of_this_build".into(), J::Str(backend.to_string()));
    rep.rule = format!("Complete matrix for the {backend} build: {{blocking, async}} x ignore_tls_errors {{unset, false, true}} x extra root {{none, correct CA as PEM, as DER, unrelated CA, second (tiny Ed25519, DER < 256 bytes and ending in a 0x0a octet) CA as PEM, as DER, correct CA as PEM with CRLF line endings and a leading comment line, correct CA as PEM behind its `openssl x509 -text` dump, third CA as PEM whose base64 body consists of full 64-character lines only (DER length 48k-2..48k)}} x server certificate {{valid for localhost, wrong host name, expired, self-signed, signed by an unknown CA, valid under the second CA, expired less than a minute before the run, valid under the third CA}} = 486 cells per TLS backend build (with the IP-only leaf), the target written ipps:// or https:// (quick: one spelling per cell chosen by cell hash and seed; thorough: both, and its host written as the name `localhost` or as the IP literal 127.0.0.1 - the leaves issued for localhost carry a dNSName only, a ninth leaf `validip` an iPAddress SAN only, the wrong-host leaf matches neither: a certificate is valid for the host only under the spelling it names; one host spelling per cell by another hash bit; x {{1.2+1.3, 1.2-only, 1.3-only}} peers), against a loopback rustls peer with freshly generated CAs. Oracle: accept <=> ignore == true or the supplied root (PEM or DER) is the one the valid leaf chains to; in every rejected cell the peer application must have received zero decrypted bytes. Plus client-reuse sequences: one client object sends to a valid server, the peer closes the connection after its answer, the server is then restarted with another certificate (same port, new TLS configuration: earlier sessions cannot be resumed) for an expired / wrong-host / valid one, and the same client sends again - refused, refused, accepted. Four builds are run and merged by the driver: both clients on native-tls, both on rustls (full matrix each), and the two mixed builds - blocking native-tls + async rustls, blocking rustls + async native-tls - with the full matrix in thorough and a 36-cell sub-matrix ({{valid, wrong host, expired}} x {{no root, PEM, DER}} x {{unset, true}} x 2 clients) in quick.");
    if only.is_none() {
        let want = if reduced { 36 } else { 486 * version_sets.len() * if tier == "thorough" { 2 } else { 1 } };
        rep.require(rep.evaluations as usize >= want, "all cells of the matrix executed");
    }
    rep.assumptions.push("trust decisions are those of OpenSSL / rustls as shipped in this image; system roots do not vouch for the freshly generated CAs".into());
    rep
}
