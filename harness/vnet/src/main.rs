//! Network monitors: C11 (HTTP clients), C12 (TLS matrix), C18 (ipputil end to end).
//! Built twice: vnet_native (native-tls backends) and vnet_rtls (rustls backends).

mod c11;
mod c12;
mod c14;
mod c18;
mod clients;
mod server;

use ippref::Model;
use vkit::out::Report;
use vkit::util::Args;

#[cfg(feature = "native")]
pub const BACKEND: &str = "native-tls";
#[cfg(all(feature = "rtls", not(feature = "native")))]
pub const BACKEND: &str = "rustls";
#[cfg(all(feature = "plain", not(feature = "native"), not(feature = "rtls")))]
pub const BACKEND: &str = "none (plain HTTP build)";
#[cfg(all(feature = "mixna", not(feature = "native"), not(feature = "rtls"), not(feature = "plain")))]
pub const BACKEND: &str = "mixed: blocking native-tls + async rustls";
#[cfg(all(feature = "mixrn", not(feature = "native"), not(feature = "rtls"), not(feature = "plain"), not(feature = "mixna")))]
pub const BACKEND: &str = "mixed: blocking rustls + async native-tls";

/// reference bytes (header + attributes + data) of a model
pub fn ref_bytes(m: &Model) -> Vec<u8> {
    ippref::encode(&ippref::model_to_wire_like(m, None))
}
pub fn ref_head(m: &Model) -> Vec<u8> {
    ippref::encode_head(&ippref::model_to_wire_like(m, None))
}

fn main() {
    let args = Args::from_env();
    let cmd = args.v.first().cloned().unwrap_or_default();
    let tier = args.str("--tier", "quick");
    let seed = args.u64("--seed", 1);
    let out = args.str("--out", "");
    vkit::util::install_panic_hook();
    // every log level is taken (and discarded), so that the arguments of the library's log macros are evaluated
    vkit::util::install_logger();
    if let Err(e) = ippref::self_check() {
        eprintln!("reference codec self-check failed: {e}");
        std::process::exit(3);
    }
    let t0 = std::time::Instant::now();
    let report: Report = match cmd.as_str() {
        "c11" => c11::run(&args, &tier, seed, BACKEND),
        "c12" => c12::run(&args, &tier, seed, BACKEND),
        "c14" => c14::run(&args, &tier, seed),
        "c18" => c18::run(&args, &tier, seed),
        _ => {
            eprintln!("unknown check {cmd}");
            std::process::exit(3);
        }
    };
    let wall = t0.elapsed().as_secs_f64();
    if out.is_empty() {
        println!("{}", report.to_json(wall).to_string());
    } else {
        report.write(&out, wall);
    }
    eprintln!("{} [{}]: evaluations={} distinct_nontrivial={} violations={} inconclusive={} wall={:.1}s", report.property, BACKEND, report.evaluations, report.distinct_nontrivial(), report.violations_total, report.inconclusive.len(), wall);
}
