//! Thin wrappers driving the two IPP clients and classifying what they return.

use ipp::prelude::*;
use ippref::Model;
use std::io::Read;
use vkit::mirror;

#[derive(Clone, Debug, Default)]
pub struct ClientCfg {
    pub headers: Vec<(String, String)>,
    pub basic: Option<(String, String)>,
    pub timeout_ms: Option<u64>,
    pub ignore_tls: Option<bool>,
    pub ca: Option<Vec<u8>>,
}

#[derive(Clone, Debug, PartialEq)]
pub enum Sent {
    /// header + attributes + trailing data of the returned response
    Ok(Box<Model>),
    /// error class (variant + detail), response never materialised
    Err(String),
    /// payload of the returned response failed to read
    PayloadErr(String),
    Panic(String),
}

impl Sent {
    pub fn is_ok(&self) -> bool {
        matches!(self, Sent::Ok(_))
    }
    pub fn short(&self) -> String {
        match self {
            Sent::Ok(m) => format!("Ok(code={:#06x} id={} groups={} data={}B)", m.code, m.id, m.groups.len(), m.data.len()),
            other => format!("{other:?}").chars().take(300).collect(),
        }
    }
}

pub fn err_class(e: &IppError) -> String {
    let s = format!("{e:?}");
    s.chars().take(240).collect()
}

fn finish(mut resp: IppRequestResponse) -> Sent {
    let mut m = mirror::from_ipp_head(resp.header(), resp.attributes());
    let mut data = vec![];
    match resp.payload_mut().read_to_end(&mut data) {
        Ok(_) => {
            m.data = data;
            Sent::Ok(Box::new(m))
        }
        Err(e) => Sent::PayloadErr(format!("{:?}", e.kind())),
    }
}

/// clients whose `uri()` no longer maps to the transport URL of the target they were given (drained into violations by the checks)
pub static URI_NOTES: std::sync::Mutex<Vec<String>> = std::sync::Mutex::new(Vec::new());

fn note_uri(kind: &str, given: &str, held: &http::Uri) {
    let given_uri: http::Uri = given.parse().expect("uri");
    let (a, b) = (ipp::client::verif_transport_url(&given_uri), ipp::client::verif_transport_url(held));
    if a != b {
        URI_NOTES.lock().unwrap().push(format!("{kind}::new({given:?}).uri() = {:?}: it maps to the transport URL {b:?}, the target given maps to {a:?}", held.to_string()));
    }
}

pub fn take_uri_notes() -> Vec<String> {
    std::mem::take(&mut *URI_NOTES.lock().unwrap())
}

impl ClientCfg {
    /// nothing configured: the plain constructors `IppClient::new` / `AsyncIppClient::new` apply
    pub fn is_default(&self) -> bool {
        self.headers.is_empty() && self.basic.is_none() && self.timeout_ms.is_none() && self.ignore_tls.is_none() && self.ca.is_none()
    }
}

pub fn blocking_client(uri: &str, cfg: &ClientCfg) -> IppClient {
    if cfg.is_default() {
        let c = IppClient::new(uri.parse().expect("uri"));
        note_uri("IppClient", uri, c.uri());
        return c;
    }
    let mut b = IppClient::builder(uri.parse().expect("uri"));
    for (k, v) in &cfg.headers {
        b = b.http_header(k, v);
    }
    if let Some((u, p)) = &cfg.basic {
        // half of the time the credentials replace earlier ones set on the same builder (a single-valued setting: the last call wins)
        if u.len() % 2 == 0 {
            b = b.basic_auth("decoy-user", "decoy-secret");
        }
        b = b.basic_auth(u, p);
    }
    if let Some(t) = cfg.timeout_ms {
        b = b.request_timeout(std::time::Duration::from_millis(t));
    }
    // the order of the builder calls and earlier values of a single-valued flag must not matter: when the flag is to end up
    // false, it is (for every other root) first switched on, the root is given, and then it is switched off again
    match (cfg.ignore_tls, &cfg.ca) {
        (Some(false), Some(ca)) if ca.len() % 2 == 0 => {
            b = b.ignore_tls_errors(true);
            b = b.ca_cert(ca);
            b = b.ignore_tls_errors(false);
        }
        (Some(false), Some(ca)) => {
            b = b.ca_cert(ca);
            b = b.ignore_tls_errors(true);
            b = b.ignore_tls_errors(false);
        }
        (f, ca) => {
            if let Some(ca) = ca {
                b = b.ca_cert(ca);
            }
            if let Some(f) = f {
                b = b.ignore_tls_errors(f);
            }
        }
    }
    b.build()
}

pub fn async_client(uri: &str, cfg: &ClientCfg) -> AsyncIppClient {
    if cfg.is_default() {
        let c = AsyncIppClient::new(uri.parse().expect("uri"));
        note_uri("AsyncIppClient", uri, c.uri());
        return c;
    }
    let mut b = AsyncIppClient::builder(uri.parse().expect("uri"));
    for (k, v) in &cfg.headers {
        b = b.http_header(k, v);
    }
    if let Some((u, p)) = &cfg.basic {
        // half of the time the credentials replace earlier ones set on the same builder (a single-valued setting: the last call wins)
        if u.len() % 2 == 0 {
            b = b.basic_auth("decoy-user", "decoy-secret");
        }
        b = b.basic_auth(u, p);
    }
    if let Some(t) = cfg.timeout_ms {
        b = b.request_timeout(std::time::Duration::from_millis(t));
    }
    // the order of the builder calls and earlier values of a single-valued flag must not matter: when the flag is to end up
    // false, it is (for every other root) first switched on, the root is given, and then it is switched off again
    match (cfg.ignore_tls, &cfg.ca) {
        (Some(false), Some(ca)) if ca.len() % 2 == 0 => {
            b = b.ignore_tls_errors(true);
            b = b.ca_cert(ca);
            b = b.ignore_tls_errors(false);
        }
        (Some(false), Some(ca)) => {
            b = b.ca_cert(ca);
            b = b.ignore_tls_errors(true);
            b = b.ignore_tls_errors(false);
        }
        (f, ca) => {
            if let Some(ca) = ca {
                b = b.ca_cert(ca);
            }
            if let Some(f) = f {
                b = b.ignore_tls_errors(f);
            }
        }
    }
    b.build()
}

pub fn send_blocking(client: &IppClient, req: IppRequestResponse) -> Sent {
    match vkit::util::catch(|| client.send(req)) {
        Ok(Ok(resp)) => vkit::util::catch(|| finish(resp)).unwrap_or_else(Sent::Panic),
        Ok(Err(e)) => Sent::Err(err_class(&e)),
        Err(p) => Sent::Panic(p),
    }
}

pub fn send_async(rt: &tokio::runtime::Runtime, client: &AsyncIppClient, req: IppRequestResponse) -> Sent {
    let r = vkit::util::catch(|| {
        rt.block_on(async {
            match client.send(req).await {
                Ok(mut resp) => {
                    // read the trailing data through the async interface (the payload wraps the HTTP body stream)
                    let mut m = mirror::from_ipp_head(resp.header(), resp.attributes());
                    let mut data = vec![];
                    match futures_util::io::AsyncReadExt::read_to_end(resp.payload_mut(), &mut data).await {
                        Ok(_) => {
                            m.data = data;
                            Sent::Ok(Box::new(m))
                        }
                        Err(e) => Sent::PayloadErr(format!("{:?}", e.kind())),
                    }
                }
                Err(e) => Sent::Err(err_class(&e)),
            }
        })
    });
    r.unwrap_or_else(Sent::Panic)
}

pub fn runtime() -> tokio::runtime::Runtime {
    tokio::runtime::Builder::new_multi_thread().worker_threads(4).enable_all().build().expect("tokio runtime")
}
