//! C14 (wire part): the URL a client really contacts - request line and Host header seen by the loopback peer
//! for explicit-port targets (the property's second observation point; the mapping function itself is checked
//! exhaustively through the hook by vcore).

use crate::c11::Kind;
use crate::clients::*;
use crate::server::{Plan, Req, Server};
use ippref::{MGroup, MVal, Model};
use std::sync::Arc;
use vkit::json::J;
use vkit::mirror;
use vkit::out::Report;
use vkit::util::Args;

pub fn run(args: &Args, tier: &str, seed: u64) -> Report {
    let mut rep = Report::new("C14", tier, seed);
    let rt = runtime();
    let srv = Server::start(None).expect("server");
    let only = args.get("--only").map(|s| s.to_string());
    let response = {
        let mut attrs = std::collections::BTreeMap::new();
        attrs.insert("attributes-charset".to_string(), MVal::Text { tag: 0x47, s: "utf-8".into() });
        crate::ref_bytes(&Model { version: 0x0101, code: 0, id: 1, groups: vec![MGroup { tag: 1, attrs }], data: vec![] })
    };
    let mut n = 0u32;
    for kind in [Kind::Blocking, Kind::Async] {
        for scheme in ["ipp", "http"] {
            for host in ["127.0.0.1", "localhost", "LocalHost"] {
                for userinfo in ["", "u@", "User:pa%20ss@", "a:b:c@"] {
                    for rest in ["", "/", "/ipp/print", "/ipp/print?q=1&r=%2F", "/a%20b//c?x", "/P/Q?Y=Z"] {
                        n += 1;
                        let id = format!("w{n}");
                        let cell = format!("{kind:?}/{scheme}/{host}/{userinfo}/{rest}");
                        if only.as_ref().map(|o| o != &cell).unwrap_or(false) {
                            continue;
                        }
                        let target = format!("/case/{id}{rest}");
                        let uri = format!("{scheme}://{userinfo}{host}:{}{target}", srv.port);
                        let resp = response.clone();
                        srv.on(&id, Arc::new(move |_r: &Req| Plan::ok(resp.clone())));
                        let mut attrs = std::collections::BTreeMap::new();
                        attrs.insert("attributes-charset".to_string(), MVal::Text { tag: 0x47, s: "utf-8".into() });
                        attrs.insert("attributes-natural-language".to_string(), MVal::Text { tag: 0x48, s: "en".into() });
                        let req = mirror::to_ipp(&Model { version: 0x0101, code: 0x000b, id: n, groups: vec![MGroup { tag: 1, attrs }], data: vec![] });
                        // every other cell through the plain constructors (nothing configured)
                        let ccfg = if n % 2 == 0 { ClientCfg::default() } else { ClientCfg { timeout_ms: Some(30_000), ..ClientCfg::default() } };
                        let result = match kind {
                            Kind::Blocking => send_blocking(&blocking_client(&uri, &ccfg), req),
                            Kind::Async => send_async(&rt, &async_client(&uri, &ccfg), req),
                        };
                        let requests = srv.requests_for(&id);
                        srv.off(&id);
                        rep.eval();
                        rep.nontrivial(vkit::rng::hash64(cell.as_bytes()));
                        rep.seen("host_forms", host);
                        rep.seen("schemes", scheme);
                        let replay = vec!["c14".to_string(), "--only".into(), cell.clone()];
                        let label = format!("{kind:?} client, target {uri}");
                        if requests.len() != 1 {
                            rep.violation("C14:wire:request-count", format!("{label}: the peer listening on the target's explicit port saw {} requests ({})", requests.len(), result.short()), replay.clone());
                            continue;
                        }
                        let r = &requests[0];
                        if r.target != target {
                            rep.violation("C14:wire:request-target", format!("{label}: request target {:?}, expected {target:?} (path and query unchanged)", r.target), replay.clone());
                        }
                        let hosts = r.header_all("host");
                        let want = format!("{host}:{}", srv.port);
                        if hosts.len() != 1 || !hosts[0].eq_ignore_ascii_case(&want) {
                            rep.violation("C14:wire:host-header", format!("{label}: Host {hosts:?}, expected {want:?} (host unchanged, explicit port kept)"), replay.clone());
                        }
                        if !result.is_ok() {
                            rep.violation("C14:wire:send-failed", format!("{label}: {}", result.short()), replay.clone());
                        }
                        if rep.samples.len() < 3 && n % 97 == 5 {
                            rep.sample(J::obj().with("target_uri", uri.as_str()).with("request_line_target", r.target.as_str()).with("host_header", hosts.join(",")));
                        }
                    }
                }
            }
        }
    }
    // ---- targets with no path, "/" alone, and the shortest paths: the request line carries exactly that (an empty path is "/")
    if only.is_none() {
        let bare = Server::start(None).expect("server");
        let resp = response.clone();
        bare.on("*", Arc::new(move |_r: &Req| Plan::ok(resp.clone())));
        for kind in [Kind::Blocking, Kind::Async] {
            for scheme in ["ipp", "http"] {
                for (rest, want) in [("", "/"), ("/", "/"), ("/?waitjob=false", "/?waitjob=false"), ("/a", "/a"), ("//", "//"), ("/ipp", "/ipp"), ("/ipp/print", "/ipp/print"), ("/?", "/?")] {
                    for configured in [false, true] {
                        n += 1;
                        let uri = format!("{scheme}://127.0.0.1:{}{rest}", bare.port);
                        let mut attrs = std::collections::BTreeMap::new();
                        attrs.insert("attributes-charset".to_string(), MVal::Text { tag: 0x47, s: "utf-8".into() });
                        attrs.insert("attributes-natural-language".to_string(), MVal::Text { tag: 0x48, s: "en".into() });
                        let req = mirror::to_ipp(&Model { version: 0x0101, code: 0x000b, id: n, groups: vec![MGroup { tag: 1, attrs }], data: vec![] });
                        let ccfg = if configured { ClientCfg { timeout_ms: Some(30_000), ..ClientCfg::default() } } else { ClientCfg::default() };
                        let before = bare.all_requests().len();
                        let result = match kind {
                            Kind::Blocking => send_blocking(&blocking_client(&uri, &ccfg), req),
                            Kind::Async => send_async(&rt, &async_client(&uri, &ccfg), req),
                        };
                        let seen: Vec<Req> = bare.all_requests().into_iter().skip(before).collect();
                        rep.eval();
                        rep.count("shortest_path_cells", 1);
                        rep.nontrivial(vkit::rng::hash64(format!("bare/{kind:?}/{uri}/{configured}").as_bytes()));
                        let label = format!("{kind:?} client ({}), target {uri}", if configured { "builder" } else { "plain constructor" });
                        let replay = vec!["c14".to_string()];
                        if seen.len() != 1 || !result.is_ok() {
                            rep.violation("C14:wire:request-count", format!("{label}: the peer saw {} requests ({})", seen.len(), result.short()), replay);
                        } else if seen[0].target != want && !(want == "/?" && seen[0].target == "/") {
                            rep.violation("C14:wire:request-target", format!("{label}: request target {:?}, expected {want:?} (path and query unchanged)", seen[0].target), replay);
                        }
                    }
                }
            }
        }
        bare.stop();
    }
    for note in crate::clients::take_uri_notes() {
        rep.violation("C14:client-holds-another-target", note, vec!["c14".to_string()]);
    }
    // ---- one client object re-used: whatever an earlier exchange returned (an HTTP error status such as 426 Upgrade Required,
    // a redirect, an IPP error), the next send of the same client contacts the same URL again
    if only.is_none() {
        for kind in [Kind::Blocking, Kind::Async] {
            for first_status in [426u16, 301, 308, 401, 403, 500, 503, 200] {
                n += 1;
                let id = format!("w{n}");
                let target = format!("/case/{id}/ipp/print?x=1");
                let uri = format!("ipp://127.0.0.1:{}{target}", srv.port);
                let resp = response.clone();
                let calls = Arc::new(std::sync::atomic::AtomicUsize::new(0));
                let c2 = calls.clone();
                srv.on(
                    &id,
                    Arc::new(move |_r: &Req| {
                        let k = c2.fetch_add(1, std::sync::atomic::Ordering::SeqCst);
                        let mut p = Plan::ok(resp.clone());
                        if k == 0 {
                            p.status = first_status;
                        }
                        p
                    }),
                );
                let mk = |i: u32| {
                    let mut attrs = std::collections::BTreeMap::new();
                    attrs.insert("attributes-charset".to_string(), MVal::Text { tag: 0x47, s: "utf-8".into() });
                    attrs.insert("attributes-natural-language".to_string(), MVal::Text { tag: 0x48, s: "en".into() });
                    mirror::to_ipp(&Model { version: 0x0101, code: 0x000b, id: i, groups: vec![MGroup { tag: 1, attrs }], data: vec![] })
                };
                let ccfg = ClientCfg { timeout_ms: Some(30_000), ..ClientCfg::default() };
                let (r1, r2) = match kind {
                    Kind::Blocking => {
                        let c = blocking_client(&uri, &ccfg);
                        (send_blocking(&c, mk(1)), send_blocking(&c, mk(2)))
                    }
                    Kind::Async => {
                        let c = async_client(&uri, &ccfg);
                        (send_async(&rt, &c, mk(1)), send_async(&rt, &c, mk(2)))
                    }
                };
                let requests = srv.requests_for(&id);
                srv.off(&id);
                rep.eval();
                rep.count("client_reuse_sequences", 1);
                let cell = format!("{kind:?}/reuse-after-{first_status}");
                rep.nontrivial(vkit::rng::hash64(cell.as_bytes()));
                let replay = vec!["c14".to_string()];
                let want_host = format!("127.0.0.1:{}", srv.port);
                let ok = requests.len() == 2 && requests.iter().all(|r| r.target == target && r.header_all("host") == vec![want_host.as_str()]) && r2.is_ok();
                if !ok {
                    rep.violation(
                        "C14:wire:client-reuse",
                        format!("{kind:?} client re-used for a second send after the first was answered HTTP {first_status}: the peer on the target's port saw {} request(s) {:?}; first send {}, second send {}", requests.len(), requests.iter().map(|r| format!("{} Host={:?}", r.target, r.header_all("host"))).collect::<Vec<_>>(), r1.short(), r2.short()),
                        replay,
                    );
                }
            }
        }
    }
    srv.stop();
    rep.rule = "Wire part of C14: {blocking, async} x {ipp, http} x host {127.0.0.1, localhost, LocalHost} x user-info {none, u@, User:pa%20ss@, a:b:c@} x path/query forms, every target with the loopback peer's explicit port. Monitor on the peer's request log: exactly one request arrives on that port, its request target equals the target's path and query, its single Host header equals host:port (host compared ASCII-case-insensitively); plus 64 shortest-path cells against a second peer that answers any target (no path, \"/\", \"/?query\", \"/a\", \"//\", \"/ipp\", \"/ipp/print\", \"/?\" x both clients x {ipp, http} x {plain constructor, builder}): the request line carries exactly that path and query (an empty path is \"/\"); every client built by a plain constructor must hold a target that maps to the same transport URL as the one it was given; plus 16 client-reuse sequences: one client object whose first send was answered with an HTTP error / redirect status contacts the same URL on its second send.".into();
    if only.is_none() {
        rep.require(rep.evaluations >= 2 * 2 * 3 * 4 * 6, "all wire cells executed");
    }
    rep
}
